#!/bin/sh
# Builds the driver and the instrumenter from sources under /verif (offline).
set -e
cd "$(dirname "$0")/sim"
export GOFLAGS=-mod=mod GOPROXY=off GOTOOLCHAIN=local GOSUMDB=off CGO_ENABLED=0
mkdir -p ../bin ../evidence ../replays
go1.26.8 build -o ../bin/check ./cmd/check
if [ -d ./cmd/instr ]; then go1.26.8 build -o ../bin/instr ./cmd/instr; fi
echo "setup ok"
