#!/usr/bin/env python3
"""Generates /verif/MANIFEST.json from the table below (one place to edit)."""
import json, sys

NA = {
 "C01": "pure function of its input (Format/scanner; the scanner refills with io.ReadFull so delivery cannot matter): no schedule, fault, crash or history for a simulator to own. Exercised as a by-product of C02/C03 only.",
 "C07": "differential test of pure codecs against independent codecs: no schedule, fault or history dimension; simulation would add nothing.",
 "C09": "pure function of (passwords, permissions, version); correct-password recovery is exercised inside C02's encrypted configurations as a by-product only.",
 "C10": "needs an independent security-handler implementation as oracle (differential); the only seam (crypto/rand) would serve just the IV clause.",
 "C12": "pure in-memory decision tree over byte strings; no I/O, time or concurrency.",
 "C13": "pure data-structure round trip (CMap construction/embedding/extraction); no schedule or fault dimension.",
 "C14": "pure (if large) function of the layout call sequence; no I/O faults, time or concurrency in the statement.",
 "C17": "pure function of the key set; no schedule, fault or history dimension.",
}

# id: (level, technique, text, note, design_ref)
CLAIMED = {
 "C02": ("exploration",
   "deterministic simulation: seeded write programs on a simulated disk (5 sink kinds, 2 read personalities), model-based oracle incl. caller-side snapshots, invalid requests that must be refused or served correctly, tape shrinking",
   "Seeded search over write programs x configurations x sink kinds x read personalities against a reference model of what was handed to the Writer; every failure is minimised and replayable. A clean batch is evidence, not proof; the sink-kind and read-personality dimensions are what the repository's tests hold constant.",
   "Trusts the harness model (deep snapshots, semantic equality) and the generators' notion of a valid program; programs the Writer rejects are skipped and a skip rate above 5% makes the check exit 2.",
   "DESIGN.md section 4 C02"),

 "C19": ("fault_enumeration",
   "deterministic simulation with exhaustive fault-point enumeration: per seeded document (library-written incl. encryption, object streams, image streams, bulk programs on the write side; hand-serialised object graphs with indirect /Filter, /DecodeParms, /Length on the read side) every ReadAt index (fail-from-k, fail-only-k, partial-data-with-error) and every sink Write/Seek index (error once, persistent, short write); the scripted read workload includes a decode function that itself reads, a second decode of every reference through the same Extractor, and a Copier step",
   "For each generated document the fault space named by the property (index k of the failing call) is enumerated completely in each mode and the scripted workload is re-run; the oracle compares every call's result with the fault-free result or requires an error that wraps the injected one and is not IsMalformed. Exhaustive in k per document, seeded over documents and configurations.",
   "Trusts that the scripted workload (open, Get, DecodeStream+drain, cached Decode, meta data) represents the calls named in the statement; only ReadAt/Write/Seek are failed; Flush of self-flushing sinks is never failed. Write-side programs with more than 600 sink operations are sampled with a stride (counted by a probe).",
   "DESIGN.md section 4 C19"),

 "C03": ("exploration",
   "deterministic simulation: seeded write programs on a simulated disk; the persisted image is validated by an independent strict PDF parser (fsck-after-workload) and its extracted values compared with the model",
   "Seeded search over write programs x versions x output modes x sink kinds; after Close the disk image must be accepted by strictpdf (stdlib-only parser written from ISO 32000: 20-byte xref lines, W-encoded xref streams with PNG-Up, one entry per number, exact 'N G obj' offsets, /Length framing direct and indirect, object stream /N /First tables) and yield the written values.",
   "Trusts strictpdf as the reading of the specification (it checks exactly the clauses of the statement and nothing more; e.g. it does not require the xref stream to list itself). Stream data behind LZW/TIFF predictor is decoded with the library's filter on independently extracted raw bytes.",
   "DESIGN.md section 4 C03"),
 "C20": ("fault_enumeration",
   "deterministic simulation with exhaustive crash-point enumeration: per seeded document every prefix length 0..len of the persisted image (documents with long streams: around object boundaries and on a coarse grid) and 9 xref-damage variants are scanned; true object extents from the independent strict parser; complete objects read through FileInfo.Read and through the Reader of MakeReader",
   "For each generated document every truncation offset is enumerated (a crash at any byte of the persisted image) plus overwritten xref/startxref ranges; the oracle requires SequentialScan to succeed whenever a complete object exists, every complete object to be listed at its true offset, not broken, and FileInfo.Read to yield the written value.",
   "Object extents come from strictpdf on the intact image. Documents are restricted as the quantifier says (no encryption, no object streams, no EOL bytes in strings or bodies). Streams whose indirect /Length object is cut off are compared byte-wise only when the extent is unambiguous.",
   "DESIGN.md section 4 C20"),

 "C06": ("exploration",
   "deterministic simulation of delivery schedules: seeded (filter, parameters, version, input) x write chunking x source short-read/EOF-with-data/(0,nil) schedule x consumer buffer sizes; decoder rebuilt via Info -> MakeFilter; chains through OpenStream on a simulated disk",
   "Seeded search over the streaming state machines' call boundaries: partial rows in predictors, partial ASCII85 groups, pending RunLength runs, LZW/CCITT bit buffers are split across Write and Read calls by drawn schedules; the oracle is byte identity and reproduction of the effective parameters.",
   "CCITTFax round-trips reliably only for Group 4 without EncodedByteAlign and with EndOfBlock; all other CCITT classes are recorded as known findings by parameter class (K class, ByteAlign, EndOfBlock), so any failure of another filter or of the good CCITT class is still a violation.",
   "DESIGN.md section 4 C06"),
 "C08": ("exploration",
   "deterministic simulation with storage-corruption, cancellation and allocation-failure faults and a simulated clock: seeded hostile (chain, parameters, body) cases incl. JPEG and JBIG2 streams forged marker by marker / segment by segment, bit flips/splices/truncation, early Close at read k, drawn small membudget, testing/synctest bubble for exact goroutine-leak detection, decode time measured as a deterministic work counter inserted into internal/filter/** by a build overlay",
   "Seeded search over hostile decoder inputs and consumer behaviours; oracles: no panic, every error IsMalformed, simulated time (work ticks) <= K*(per-stream budget + bytes produced), termination (step caps + wall-clock watchdog confirmed in a fresh process), allocation proxy, CCITT geometry cap, and no goroutine left durably blocked once the reader is closed or DecodeStream has failed (exact, via the synctest bubble).",
   "Allocation is bounded by a TotalAlloc proxy, not by instrumenting the allocator; the constants of the work bound (K = 24 DCT and 512 JBIG2 relative to budget + output; 256 ticks per byte in and out + 64 Mi for the byte-oriented decoders) are calibrated on the unchanged tree and exclude only work that grows without matching input, budget or output; the work bound is applied only when no stage before the last one can expand; the DCT/JBIG2 geometry caps are too large to drain per run.",
   "DESIGN.md section 4 C08"),

 "C18": ("exploration",
   "deterministic simulation of caller threads: real library code in real goroutines inside a testing/synctest bubble, one runnable task at a time chosen from the tape by a seeded strategy (random, PCT, run-until-blocked, round robin) at AST-instrumented Lock/recv/close/pool sites and at the ReadAt/Getter/callback seams; porcupine linearizability check of the cache history against a sequential model plus invariants",
   "Seeded search over interleavings at the cache protocol's synchronisation points with losing races forced rather than hoped for; oracles: sequential equivalence of Get/DecodeStream, identical Go value per (extractor, reference, type), linearizability of the Decode/DecodeExclusive/StoreOrLoadPair history (porcupine), exclusive-decode invariants (no overlap, one success, waiters do not re-run), scheduler-detected deadlock, pool discipline, transient I/O faults must not poison the cache, independent files must not interfere through package state.",
   "The cooperative scheduler serialises everything, so data races between two yield points are invisible to it by construction; a second phase therefore runs the same kinds of workload with real goroutines and the uninstrumented library under go test -race (a report is a true race, replayed by seed, not by schedule); yield points are derived from the working tree by cmd/instr at check time (no hook committed to /repo), so moved or added lock sites are picked up automatically. Small schedule spaces are sampled, not enumerated.",
   "DESIGN.md section 4 C18"),

 "C05": ("exploration",
   "deterministic simulation with storage-corruption faults: seeded base documents (high-level packages and object soups) on a simulated disk, 0..4 injected faults (bit flips, overwrites, zeroed sectors, misdirected/duplicated blocks, torn tail, token-level structure edits, reference rewiring, prepended bytes, /Prev rewiring) on library-written documents, revision histories from the independent serialiser and hand-made hostile structures (diamond-shaped trees, hostile CMaps), full read-side walk inside a testing/synctest bubble, walk time measured by a deterministic work counter inserted into every package of the repository by a build overlay",
   "Seeded search over corrupted images x reader modes x read personalities; oracles: no panic, simulated time outside the stream decoders <= 24Mi*(1+pages+fonts) + 4096*(image length + bytes drained), termination (confirmed wall-clock watchdog as backstop), TotalAlloc proxy bound, and exact detection of goroutines left behind when the walk returns (synctest bubble).",
   "Memory is bounded by a coarse measured proxy; the time bound is calibrated on the unchanged tree and generous (it excludes blow-ups of orders of magnitude); loops inside one library call that never end rely on the watchdog; the walker covers the reading APIs named in the property (NewReader, SequentialScan/MakeReader, Get, DecodeStream, pagetree, page.Decode, extract.Font, GlyphNameMapping, reader.ProcessPage, outline, name tree).",
   "DESIGN.md section 4 C05"),

 "C04": ("exploration",
   "deterministic simulation of revision histories: an independent serialiser appends revisions (define/redefine/free/re-use, table / xref stream / hybrid sections, object streams, drawn syntactic renderings, /Length variants) to a simulated disk; after every appended revision the real Reader is compared with a 30-line reference model",
   "Seeded search over histories x renderings; the expected answer comes from the reference model (apply revisions oldest to newest), never from the library; the image is checked after each appended revision, not only at the end of the history.",
   "Trusts revwriter to emit only specification-conforming files (free list, /Size, /Prev, self-describing xref streams; hybrid files only in the uncontroversial rendering) and the quantifier's exclusions for the /Length clause (ambiguous extents are skipped and counted by a probe). The small-history space is sampled by seeded search, not enumerated.",
   "DESIGN.md section 4 C04"),
 "C11": ("exploration",
   "deterministic simulation with two disks: seeded source graphs serialised by the independent serialiser (or by the Writer when encrypted), copy programs against a real Writer on a second simulated sink (copies interleaved with target writes and issued while a target stream is open), lock-step isomorphism walk after reopening the target",
   "Seeded search over source graphs x serialisations x target configurations x copy programs; the oracle builds the relation source-object <-> target-object and requires a bijection, equal scalars, array lengths, dictionary key sets, preserved empty containers and nulls, equal decoded stream data, equivalent /Filter and /DecodeParms with nested references translated, and stable results for repeated CopyReference.",
   "References are identified with the object at the end of their reference-to-reference chain; chains that pass through a redirected object are not judged (unspecified); dictionary entries with null values count as absent.",
   "DESIGN.md section 4 C11"),

 "C15": ("exploration",
   "deterministic simulation of byte delivery and stream splitting: seeded operator sequences / Builder call sequences, bytes delivered to the content scanner through a drawn schedule (short reads, (0,nil), data-with-EOF) or split at operator boundaries over several /Contents streams on a simulated disk",
   "Seeded search over operator sequences x delivery schedules x split points; the scanner refills with a single Read, so its 512-byte window boundaries follow the delivery schedule, which in production is a Flate reader; the oracle is equality of operator names and operands in order, and for Builder output acceptance by State.ApplyOperator and a balanced end.",
   "Inline-image data that contains EOL+EI+delimiter is written with the /L key (otherwise inherently ambiguous); operands exclude references and streams; Builder programs come from a small state machine, rejected programs are skipped.",
   "DESIGN.md section 4 C15"),
 "C16": ("exploration",
   "deterministic simulation of interleaved range writers: every open pagetree.Writer is a logical task, a seeded scheduler interleaves append / burst / NewRange / NextPageNumber / Close steps; page tree written to a simulated disk and compared with an ordered-tree model after reopening",
   "Seeded search over interleavings of nested range writers and attribute patterns; oracles: iterator order, raw tree walk (Count, Parent, fan-out, no node twice), effective MediaBox/CropBox/Rotate/Resources by our own inheritance walk, page-number callbacks fired once with the final position, NumPages/GetPage.",
   "The callback contract (next page appended directly to that writer, -1 if closed first) is read from the documentation; attribute ties are broken in map order by the library, so only semantics are compared.",
   "DESIGN.md section 4 C16"),
}

PENDING = {}

def main():
    checks = []
    for pid, (level, tech, text, note, ref) in sorted(CLAIMED.items()):
        checks.append({
            "property_id": pid,
            "quick_cmd": f"./bin/check -prop {pid} -tier quick",
            "thorough_cmd": f"./bin/check -prop {pid} -tier thorough",
            "evidence_file": f"/verif/evidence/{pid}.json",
            "replay_cmd_template": "./bin/check -replay {path}",
            "engine": "sim",
            "level_claimed": {"category": level, "text": text, "design_ref": ref},
            "level_note": note,
            "technique": tech,
        })
    na = [{"property_id": k, "reason": "not applicable under deterministic simulation: " + v} for k, v in sorted(NA.items())]
    for k, v in sorted(PENDING.items()):
        if k not in CLAIMED:
            na.append({"property_id": k, "reason": v})
    na.sort(key=lambda x: x["property_id"])
    m = {
        "version": 1,
        "setup_cmd": "./setup.sh",
        "hooks": {
            "guard": "verif",
            "enable": "no hook is committed to /repo: C18's harness is built with `go test -c -overlay` from AST-instrumented copies of the working tree's resource.go, cursor.go, filter.go, font/cmap/predefined.go, font/mapping/mapping.go generated by /verif/bin/instr at check time (scheduler yield points); C08's and C05's harnesses are built the same way with a work counter (one tick per function entry and loop iteration; C08: packages under internal/filter/, C05: every package of the repository); all other checks drive the unmodified working tree through its public interfaces",
            "baseline_off_cmd": "cd /repo && go test -vet=off -count=1 -timeout 25m ./...",
            "source_commits": [],
            "add_only": True,
        },
        "engines": [{
            "name": "sim",
            "path": "/verif/sim",
            "serves_properties": sorted(CLAIMED.keys()),
            "kind_free_text": "deterministic simulator for a single-process library: one choice tape per run (SplitMix64 from VERIF_SEED) decides generated operations, configuration, chunking, fault points and task schedule; simulated disk (sinks, io.ReaderAt personalities, corruption, crash prefixes), delivery schedules, cooperative scheduler inside a testing/synctest bubble; generic tape shrinking; replay files re-executed in a fresh process",
        }],
        "checks": checks,
        "not_applicable": na,
        "notes": "Driver: /verif/bin/check (built by setup.sh from /verif/sim/cmd/check). Every check rebuilds the harness test binary against /repo's working tree. Exit 0 = held (KNOWN-FINDING lines for listed findings), 1 = VIOLATION line with a replay file under /verif/replays, 2 = check could not be evaluated (build trouble, worker crash outside an oracle, unreproducible result). Known findings: /verif/known_findings.json.",
    }
    json.dump(m, open('/verif/MANIFEST.json', 'w'), indent=1)
    print("claimed:", sorted(CLAIMED), "n/a:", [x["property_id"] for x in na])

PENDING = {p: "not claimed yet: the simulation harness for this property is still under construction (see DESIGN.md section 4); it is applicable and will be claimed once its check is sound on the unchanged tree" for p in
           []}

if __name__ == "__main__":
    main()
