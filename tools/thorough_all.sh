#!/bin/bash
# Runs the thorough tier of every claimed check (sequentially); usage: thorough_all.sh [seed] [workers]
cd "$(dirname "$0")/.."
./setup.sh >/dev/null
if [ -n "$VP_RUN_REPO" ]; then export VERIF_REPO="$VP_RUN_REPO"; fi
seed=${1:-1}; workers=${2:-16}
for p in C02 C03 C04 C05 C06 C08 C11 C15 C16 C18 C19 C20; do
  echo "=== $p thorough seed=$seed"
  VERIF_SEED=$seed ./bin/check -prop $p -tier thorough -workers $workers > /tmp/thorough_$p.$$ 2>&1
  rc=$?
  grep -v "^instr" /tmp/thorough_$p.$$ | cut -c1-400 | tail -12
  rm -f /tmp/thorough_$p.$$
  echo "exit=$rc"
done
