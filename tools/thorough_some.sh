#!/bin/bash
# usage: thorough_some.sh "<props>" "<seeds>" [workers]   e.g. thorough_some.sh "C05 C08" "5 6 7" 8
cd "$(dirname "$0")/.."
./setup.sh >/dev/null
if [ -n "$VP_RUN_REPO" ]; then export VERIF_REPO="$VP_RUN_REPO"; fi
workers=${3:-16}
for seed in $2; do
  for p in $1; do
    echo "=== $p thorough seed=$seed"
    VERIF_SEED=$seed ./bin/check -prop $p -tier thorough -workers $workers > /tmp/thorough_$p.$$ 2>&1
    rc=$?
    grep -v "^instr" /tmp/thorough_$p.$$ | cut -c1-600 | tail -12
    rm -f /tmp/thorough_$p.$$
    echo "exit=$rc"
  done
done
