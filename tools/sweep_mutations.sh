#!/bin/bash
# usage: sweep_mutations.sh [id...]     (default: every directory under /verif/seeded)
# Runs the quick check of the property each seeded change breaks against the
# patched /repo (apply, check, undo) and appends one line per change to
# /verif/seeded/SWEEP.txt: id, property, exit code, violation classes.
cd /verif || exit 2
ids="$@"
[ -n "$ids" ] || ids=$(ls seeded | grep -E '^C[0-9]+-m[0-9]+$')
for id in $ids; do
  d=/verif/seeded/$id
  patch=$d/patch.diff
  [ -f $d/patch_rebased.diff ] && patch=$d/patch_rebased.diff
  prop=${id%%-*}
  props=$prop
  # additional checks known to see the change (from meta.json: "also_checked")
  extra=$(python3 -c "import json,sys; print(' '.join(json.load(open('$d/meta.json')).get('also_checked',[])))" 2>/dev/null)
  for p in $props $extra; do
    out=$(tools/try_mutation.sh $patch $p 2>&1)
    rc=$(echo "$out" | grep -o "exit=[0-9]*" | head -1)
    classes=$(echo "$out" | grep "^violation" | sed -E 's/^violation class=([^ ]+).*/\1/' | sort -u | paste -sd, )
    echo "$(date +%F) $id check=$p $rc classes=[$classes]" | tee -a /verif/seeded/SWEEP.txt
  done
done
