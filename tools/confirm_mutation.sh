#!/bin/bash
# usage: confirm_mutation.sh <mutation dir with patch.diff + demo> <seeded id> <property> [demo placement dir relative to repo root]
# Confirms in a scratch worktree: demo passes without the patch, fails with it, and
# the repository's test suite still passes with it.  Writes /verif/seeded/<id>/.
src="$1"; id="$2"; prop="$3"; place="${4:-.}"
wt=/tmp/mutv/$id
mkdir -p /tmp/mutv
cd /repo && git worktree add -q --detach "$wt" HEAD || exit 2
cd "$wt"
demo=$(ls "$src"/demo_test.go 2>/dev/null)
log=/tmp/mutv/$id.log
: > $log
run_demo() {
  if [ -n "$demo" ]; then
    cp "$demo" "$wt/$place/zz_demo_test.go"
    (set -o pipefail; cd "$wt/$place" && go test -vet=off -count=1 -run "$(grep -o 'func Test[A-Za-z0-9_]*' zz_demo_test.go | sed 's/func //' | paste -sd'|')" . 2>&1 | tail -15)
    rc=$?
    rm -f "$wt/$place/zz_demo_test.go"
  else
    mkdir -p "$wt/zz_demo" && cp "$src"/demo/main.go "$wt/zz_demo/main.go"
    (set -o pipefail; cd "$wt" && go run ./zz_demo 2>&1 | tail -15); rc=$?
    rm -rf "$wt/zz_demo"
  fi
  return $rc
}
echo "--- demo WITHOUT patch" >> $log
out=$(run_demo); rc0=$?; echo "$out" >> $log; echo "rc=$rc0" >> $log
git apply "$src/patch.diff" || { echo "patch failed" >> $log; cd /repo; git worktree remove --force "$wt"; echo "RESULT $id patch-failed"; exit 1; }
echo "--- demo WITH patch" >> $log
out=$(run_demo); rc1=$?; echo "$out" >> $log; echo "rc=$rc1" >> $log
echo "--- build + full test suite WITH patch" >> $log
go build ./... >> $log 2>&1
go test -vet=off -count=1 -timeout 25m ./... > /tmp/mutv/$id.suite.log 2>&1
fails=$(grep -E "^(FAIL|--- FAIL)" /tmp/mutv/$id.suite.log | grep -v "viewer-tests/media\|viewer-tests/movie" | grep -v "^FAIL$" )
echo "suite failures (beyond the 2 known setup failures): [$fails]" >> $log
cd /repo && git worktree remove --force "$wt"
status="confirmed"
if [ -n "$demo" ]; then
  [ $rc0 -eq 0 ] || status="demo-fails-without-patch"
  [ $rc1 -ne 0 ] || status="demo-passes-with-patch"
fi
[ -z "$fails" ] || status="suite-fails"
echo "RESULT $id $status (demo rc without=$rc0 with=$rc1)" | tee -a $log
if [ "$status" = "confirmed" ]; then
  mkdir -p /verif/seeded/$id
  cp "$src/patch.diff" /verif/seeded/$id/patch.diff
  [ -n "$demo" ] && cp "$demo" /verif/seeded/$id/demo_test.go || cp "$src"/demo/main.go /verif/seeded/$id/demo_main.go
  cp "$src/README.md" /verif/seeded/$id/README.md 2>/dev/null
  cp $log /verif/seeded/$id/confirm.log
fi
