#!/bin/bash
# usage: try_mutation.sh <patch.diff> <prop> [<prop>...]   (env TIER=quick|thorough, EXTRA="-secs 20")
# Applies the patch to /repo, runs the named checks, and undoes the patch.
patch="$1"; shift
cd /repo || exit 2
if ! git diff --quiet; then echo "/repo has uncommitted changes"; exit 2; fi
if ! git apply --check "$patch" 2>/dev/null; then
  echo "patch does not apply cleanly, trying 3-way"; 
  if ! git apply -3 "$patch"; then echo "PATCH FAILED"; git reset -q --hard HEAD; exit 2; fi
  git reset -q
else
  git apply "$patch"
fi
git diff --stat | tail -1
cd /verif
for p in "$@"; do
  out=$(timeout 3000 ./bin/check -prop "$p" -tier "${TIER:-quick}" $EXTRA 2>&1)
  rc=$?
  echo "== $p exit=$rc"
  echo "$out" | grep -E "^violation|^VIOLATION|^KNOWN|^C[0-9]+ |check:" | cut -c1-400 | head -12
done
cd /repo && git checkout -- . && git status --short | head -3
