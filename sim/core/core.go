// Package core is the run/shrink/replay engine shared by all property
// harnesses: it defines what a simulated run is (a function of one tape),
// executes slices of runs in a worker process, minimises failing tapes and
// writes the per-worker summary the driver merges into evidence.
package core

import (
	"encoding/json"
	"fmt"
	"os"
	"runtime"
	"runtime/debug"
	"sort"
	"strings"
	"sync/atomic"
	"testing"
	"time"

	"verif/sim/tape"
)

const HarnessVersion = 1

// Prop describes one property harness.
type Prop struct {
	ID          string
	Level       string // "exploration" | "fault_enumeration"
	Rule        string // how cases are generated / what is distinct and non-trivial
	Assumptions []string
	Real        []string
	Stub        []string
	Quick       Budget
	Thorough    Budget
	// Run executes one simulated run.  It must be a pure function of e.T (and
	// the code under test).
	Run func(e *Env)
	// RunTimeoutS is the per-run wall-clock watchdog (0 = default).
	RunTimeoutS int
	// Probes that must be reached in the thorough tier (warning otherwise).
	WantProbes []string
	// Corners are hand-written deterministic scenarios (regressions for every
	// defect ever found, corner schedules).  They run first in both tiers,
	// independent of the seed, and do not draw from the tape.
	Corners map[string]func(e *Env)
}

// Budget bounds a tier.
type Budget struct {
	Runs int // total runs over all workers
	Secs int // wall-clock cap per worker
}

var registry = map[string]*Prop{}

func Register(p *Prop)       { registry[p.ID] = p }
func Lookup(id string) *Prop { return registry[id] }
func IDs() []string {
	var ids []string
	for id := range registry {
		ids = append(ids, id)
	}
	sort.Strings(ids)
	return ids
}

// Violation is what an oracle reports.
type Violation struct {
	Class string            `json:"class"`
	Attrs map[string]string `json:"attrs,omitempty"`
	Msg   string            `json:"msg"`
}

// Key identifies the violation class for shrinking and known-finding matching.
func (v *Violation) Key() string {
	if v == nil {
		return ""
	}
	keys := make([]string, 0, len(v.Attrs))
	for k := range v.Attrs {
		keys = append(keys, k)
	}
	sort.Strings(keys)
	var sb strings.Builder
	sb.WriteString(v.Class)
	for _, k := range keys {
		fmt.Fprintf(&sb, "|%s=%s", k, v.Attrs[k])
	}
	return sb.String()
}

// Env is handed to Prop.Run.
type Env struct {
	T    *tape.Tape
	TB   *testing.T
	Tier string

	viol       *Violation
	skip       string
	sig        uint64
	nontrivial bool
	faults     map[string]int
	probes     map[string]int
	steps      int64
	notes      []Note
	keepNotes  bool
	attach     map[string][]byte
	given      map[string][]byte
}

// Attach stores a binary artefact (e.g. the corrupted input image) with the
// run; it is written into the replay file so that the counter-example stands
// alone even where the library's output bytes are not reproducible (Go map
// order).  Only kept when notes are kept.
func (e *Env) Attach(name string, data []byte) {
	if !e.keepNotes {
		return
	}
	if e.attach == nil {
		e.attach = map[string][]byte{}
	}
	e.attach[name] = append([]byte(nil), data...)
}

// Given returns an artefact supplied by the replay file.
func (e *Env) Given(name string) ([]byte, bool) {
	d, ok := e.given[name]
	return d, ok
}

type Note struct {
	K string `json:"k"`
	V any    `json:"v"`
}

// Fail records a violation (the first one wins).
func (e *Env) Fail(class string, attrs map[string]string, format string, args ...any) {
	if e.viol != nil {
		return
	}
	e.viol = &Violation{Class: class, Attrs: attrs, Msg: fmt.Sprintf(format, args...)}
}
func (e *Env) Failed() bool { return e.viol != nil }

// Skip marks the run as not evaluable (generator produced something the
// system legitimately refuses); counted, never a violation.
func (e *Env) Skip(reason string) {
	if e.skip == "" {
		e.skip = reason
	}
}
func (e *Env) Fault(kind string) { e.faults[kind]++ }
func (e *Env) FaultN(kind string, n int) {
	if n > 0 {
		e.faults[kind] += n
	}
}
func (e *Env) Probe(name string) { e.probes[name]++ }
func (e *Env) ProbeN(name string, n int) {
	if n > 0 {
		e.probes[name] += n
	}
}
func (e *Env) Steps(n int) { e.steps += int64(n) }
func (e *Env) Nontrivial() { e.nontrivial = true }
func (e *Env) Sig(parts ...any) {
	for _, p := range parts {
		e.sig = tape.Mix(e.sig, tape.HashString(fmt.Sprint(p)))
	}
}
func (e *Env) SigU(x uint64) { e.sig = tape.Mix(e.sig, x) }

// Note adds a line to the decoded scenario (kept only for samples and
// replays).
func (e *Env) Note(k string, v any) {
	if e.keepNotes {
		e.notes = append(e.notes, Note{k, v})
	}
}
func (e *Env) KeepNotes() bool { return e.keepNotes }

// Outcome is the result of one run.
type Outcome struct {
	Viol       *Violation
	Skip       string
	Sig        uint64
	Nontrivial bool
	Faults     map[string]int
	Probes     map[string]int
	Steps      int64
	Notes      []Note
	Draws      int
	Attach     map[string][]byte
}

var currentRun atomic.Int64
var currentStart atomic.Int64
var currentSeed atomic.Uint64
var currentTape atomic.Pointer[[]uint64] // set while a replayed candidate runs (shrinking)

// RunOne executes p.Run on the tape, converting panics into violations.
func RunOne(p *Prop, tb *testing.T, tier string, t *tape.Tape, keepNotes bool) (out Outcome) {
	return RunOneGiven(p, tb, tier, t, keepNotes, nil)
}

// RunOneGiven is RunOne with artefacts supplied by a replay file.
func RunOneGiven(p *Prop, tb *testing.T, tier string, t *tape.Tape, keepNotes bool, given map[string][]byte) (out Outcome) {
	e := &Env{T: t, TB: tb, Tier: tier, faults: map[string]int{}, probes: map[string]int{}, keepNotes: keepNotes, given: given}
	if processDirty {
		// A violating run may leave process-wide state behind (the library's
		// sync.Pool of zlib readers is the one known case: an object pooled
		// twice).  Two collections empty every sync.Pool, so that the next run,
		// and every shrink candidate, starts from a clean process state and a
		// verdict depends on its own tape only.
		runtime.GC()
		runtime.GC()
		processDirty = false
	}
	func() {
		defer func() {
			if r := recover(); r != nil {
				frame := topLibraryFrame(debug.Stack())
				e.viol = nil
				e.Fail("panic", map[string]string{"frame": frame}, "panic: %v\n%s", r, trimStack(debug.Stack()))
			}
		}()
		p.Run(e)
	}()
	out = Outcome{Viol: e.viol, Skip: e.skip, Sig: e.sig, Nontrivial: e.nontrivial, Faults: e.faults,
		Probes: e.probes, Steps: e.steps, Notes: e.notes, Draws: t.Pos(), Attach: e.attach}
	if t.Over && out.Viol == nil {
		out.Skip = "tape limit"
	}
	if out.Viol != nil {
		processDirty = true
	}
	return out
}

var processDirty bool

// PanicViolation builds the violation for a panic caught elsewhere (e.g. in a
// task goroutine).
func PanicViolation(r any, stack []byte) (string, map[string]string, string) {
	return "panic", map[string]string{"frame": topLibraryFrame(stack)}, fmt.Sprintf("panic: %v\n%s", r, trimStack(stack))
}

func topLibraryFrame(stack []byte) string {
	lines := strings.Split(string(stack), "\n")
	for _, l := range lines {
		l = strings.TrimSpace(l)
		if strings.HasPrefix(l, "seehuhn.de/go/") {
			if i := strings.LastIndex(l, "("); i > 0 {
				l = l[:i]
			}
			return l
		}
	}
	return "?"
}

func trimStack(stack []byte) string {
	s := string(stack)
	if len(s) > 3000 {
		s = s[:3000] + "\n..."
	}
	return s
}

// ---------------------------------------------------------------------------
// worker

// FoundViolation is a violation together with the tape that produces it.
type FoundViolation struct {
	Violation
	Seed        uint64            `json:"seed"`
	Run         int               `json:"run"`
	Tape        []uint64          `json:"tape"`
	Labels      []tape.Rec        `json:"labels,omitempty"`
	Scenario    []Note            `json:"scenario,omitempty"`
	Shrunk      bool              `json:"shrunk"`
	Candidates  int               `json:"shrink_candidates"`
	OrigLen     int               `json:"orig_tape_len"`
	Count       int               `json:"count"` // runs that hit this class
	Corner      string            `json:"corner,omitempty"`
	Attachments map[string][]byte `json:"attachments,omitempty"`
}

// Summary is what a worker writes.
type Summary struct {
	Prop       string            `json:"prop"`
	Worker     int               `json:"worker"`
	Runs       int               `json:"runs"`
	Skipped    map[string]int    `json:"skipped"`
	Nontrivial int               `json:"nontrivial"`
	Sigs       []uint64          `json:"sigs"`
	Faults     map[string]int    `json:"faults"`
	Probes     map[string]int    `json:"probes"`
	Steps      int64             `json:"steps"`
	Draws      int64             `json:"draws"`
	Samples    [][]Note          `json:"samples"`
	Violations []*FoundViolation `json:"violations"`
	WallS      float64           `json:"wall_s"`
	MaxRunMs   float64           `json:"max_run_ms"`
	SlowRuns   int               `json:"slow_runs"`
	Corners    int               `json:"corners"`
	Complete   bool              `json:"complete"`
	StoppedBy  string            `json:"stopped_by"`
}

// WorkerConfig is read from the environment by the test binary.
type WorkerConfig struct {
	Prop       string
	Tier       string
	Seed       uint64
	Worker     int
	Workers    int
	Runs       int
	Secs       int
	Out        string
	ShrinkS    int
	Progress   string // if set, the current run index is written here before each run
	OnlyRun    int    // >=0: execute exactly this run index
	MaxClasses int
	EventLog   string // if set, one line per run (draws, signature, steps, verdict) is written here
}

// RunSeed derives the seed of run i.
func RunSeed(seed uint64, prop string, i int) uint64 {
	return tape.Mix(seed, tape.HashString(prop), uint64(i))
}

// Worker executes a slice of runs.
func Worker(tb *testing.T, cfg WorkerConfig) *Summary {
	p := Lookup(cfg.Prop)
	if p == nil {
		tb.Fatalf("unknown property %q (have %v)", cfg.Prop, IDs())
	}
	sum := &Summary{Prop: p.ID, Worker: cfg.Worker, Skipped: map[string]int{}, Faults: map[string]int{}, Probes: map[string]int{}}
	sigs := map[uint64]bool{}
	byKey := map[string]*FoundViolation{}
	start := time.Now()
	deadline := start.Add(time.Duration(cfg.Secs) * time.Second)
	timeout := p.RunTimeoutS
	if timeout == 0 {
		timeout = 20
		if cfg.Tier == "thorough" {
			timeout = 120
		}
	}
	stopWatch := startWatchdog(cfg, timeout)
	defer stopWatch()
	if cfg.MaxClasses == 0 {
		cfg.MaxClasses = 40
	}

	if cfg.Worker == 0 && cfg.OnlyRun < 0 {
		var names []string
		for n := range p.Corners {
			names = append(names, n)
		}
		sort.Strings(names)
		for _, n := range names {
			cp := *p
			cp.Run = p.Corners[n]
			currentStart.Store(time.Now().UnixNano())
			currentRun.Store(-1)
			out := RunOne(&cp, tb, cfg.Tier, tape.Replay(nil), true)
			sum.Corners++
			if out.Viol != nil {
				fv := &FoundViolation{Violation: *out.Viol, Corner: n, Run: -1, Count: 1, Scenario: out.Notes}
				byKey["corner:"+n] = fv
				sum.Violations = append(sum.Violations, fv)
			}
		}
	}

	var evlog *os.File
	if cfg.EventLog != "" {
		evlog, _ = os.Create(cfg.EventLog)
		defer evlog.Close()
	}

	first, step := cfg.Worker, cfg.Workers
	if cfg.OnlyRun >= 0 {
		first, step = cfg.OnlyRun, 1<<30
	}
	sum.StoppedBy = "runs"
	for i := first; i < cfg.Runs || cfg.OnlyRun >= 0; i += step {
		if cfg.OnlyRun < 0 && cfg.Secs > 0 && time.Now().After(deadline) {
			sum.StoppedBy = "time"
			break
		}
		if cfg.Progress != "" {
			os.WriteFile(cfg.Progress, []byte(fmt.Sprint(i)), 0o644)
		}
		seed := RunSeed(cfg.Seed, p.ID, i)
		currentSeed.Store(seed)
		currentTape.Store(nil)
		currentStart.Store(time.Now().UnixNano())
		currentRun.Store(int64(i))
		t0 := time.Now()
		keep := len(sum.Samples) < 3 && cfg.Worker == 0
		tp := tape.New(seed)
		if !keep {
			tp.NoRecord()
		}
		out := RunOne(p, tb, cfg.Tier, tp, keep)
		ms := float64(time.Since(t0).Microseconds()) / 1000
		if ms > sum.MaxRunMs {
			sum.MaxRunMs = ms
		}
		if ms > 5000 {
			sum.SlowRuns++
			if f := os.Getenv("VSIM_SLOWLOG"); f != "" {
				// debugging aid: re-run with notes kept and log the scenario
				again := RunOne(p, tb, cfg.Tier, tape.New(seed), true)
				if fh, err := os.OpenFile(f, os.O_APPEND|os.O_CREATE|os.O_WRONLY, 0o644); err == nil {
					fmt.Fprintf(fh, "run=%d ms=%.0f notes=%v\n", i, ms, again.Notes)
					fh.Close()
				}
			}
		}
		if evlog != nil {
			vk := ""
			if out.Viol != nil {
				vk = out.Viol.Key()
			}
			fmt.Fprintf(evlog, "%d draws=%d sig=%x nontrivial=%v skip=%q steps=%d faults=%v probes=%v viol=%q\n", i, out.Draws, out.Sig, out.Nontrivial, out.Skip, out.Steps, sortedCounts(out.Faults), sortedCounts(out.Probes), vk)
		}
		sum.Runs++
		sum.Steps += out.Steps
		sum.Draws += int64(out.Draws)
		for k, v := range out.Faults {
			sum.Faults[k] += v
		}
		for k, v := range out.Probes {
			sum.Probes[k] += v
		}
		if out.Skip != "" {
			sum.Skipped[out.Skip]++
		}
		if out.Nontrivial && out.Skip == "" {
			sum.Nontrivial++
			sigs[out.Sig] = true
			if keep && out.Viol == nil {
				sum.Samples = append(sum.Samples, out.Notes)
			}
		}
		if out.Viol != nil {
			key := out.Viol.Key()
			if fv, ok := byKey[key]; ok {
				fv.Count++
			} else if len(byKey) < cfg.MaxClasses {
				fv := shrinkViolation(p, tb, cfg, seed, i, out.Viol)
				byKey[key] = fv
				sum.Violations = append(sum.Violations, fv)
			}
		}
		if cfg.OnlyRun >= 0 {
			break
		}
	}
	currentStart.Store(0)
	for s := range sigs {
		sum.Sigs = append(sum.Sigs, s)
	}
	sort.Slice(sum.Sigs, func(i, j int) bool { return sum.Sigs[i] < sum.Sigs[j] })
	sum.WallS = time.Since(start).Seconds()
	sum.Complete = true
	return sum
}

func shrinkViolation(p *Prop, tb *testing.T, cfg WorkerConfig, seed uint64, run int, v *Violation) *FoundViolation {
	// re-run with recording to obtain the tape
	tp := tape.New(seed)
	out := RunOne(p, tb, cfg.Tier, tp, true)
	fv := &FoundViolation{Violation: *v, Seed: seed, Run: run, Count: 1}
	if out.Viol == nil || out.Viol.Key() != v.Key() {
		// not reproducible from the seed in-process: report unshrunk; the
		// driver's fresh-process replay decides
		fv.Tape = tp.Values()
		fv.Labels = tp.Records()
		fv.Scenario = out.Notes
		fv.Attachments = out.Attach
		fv.OrigLen = len(fv.Tape)
		return fv
	}
	vals := tp.Values()
	fv.OrigLen = len(vals)
	key := v.Key()
	secs := cfg.ShrinkS
	if secs == 0 {
		secs = 15
	}
	best, cand := tape.Shrink(vals, func(c []uint64) bool {
		cc := append([]uint64(nil), c...)
		currentTape.Store(&cc)
		currentStart.Store(time.Now().UnixNano())
		o := RunOne(p, tb, cfg.Tier, tape.Replay(c).NoRecord(), false)
		return o.Viol != nil && o.Viol.Key() == key
	}, 4000, time.Now().Add(time.Duration(secs)*time.Second))
	currentTape.Store(nil)
	currentStart.Store(time.Now().UnixNano())
	fv.Candidates = cand
	rt := tape.Replay(best)
	o := RunOne(p, tb, cfg.Tier, rt, true)
	if o.Viol != nil && o.Viol.Key() == key {
		fv.Shrunk = true
		fv.Tape = rt.Values()
		fv.Labels = rt.Records()
		fv.Scenario = o.Notes
		fv.Violation = *o.Viol
		fv.Attachments = o.Attach
	} else {
		fv.Tape = vals
		fv.Labels = tp.Records()
		fv.Scenario = out.Notes
		fv.Attachments = out.Attach
	}
	return fv
}

func startWatchdog(cfg WorkerConfig, timeoutS int) func() {
	done := make(chan struct{})
	go func() {
		tick := time.NewTicker(500 * time.Millisecond)
		defer tick.Stop()
		for {
			select {
			case <-done:
				return
			case <-tick.C:
				st := currentStart.Load()
				if st == 0 {
					continue
				}
				if time.Since(time.Unix(0, st)) > time.Duration(timeoutS)*time.Second {
					run := currentRun.Load()
					buf := make([]byte, 1<<16)
					n := runtime.Stack(buf, true)
					msg := map[string]any{"hang_run": run, "seed": fmt.Sprint(currentSeed.Load()), "timeout_s": timeoutS, "stacks": string(buf[:n]),
						"frame": runningLibraryFrame(string(buf[:n]))}
					if tp := currentTape.Load(); tp != nil {
						msg["tape"] = *tp
					}
					b, _ := json.Marshal(msg)
					os.WriteFile(cfg.Out+".hang", b, 0o644)
					os.Exit(3)
				}
			}
		}
	}()
	return func() { close(done) }
}

// runningLibraryFrame extracts the innermost library frame of the goroutine
// that is executing the run (the one with RunOne on its stack).
func runningLibraryFrame(stacks string) string {
	// prefer the goroutine that is executing (running or runnable) library
	// code; the run may be inside a synctest bubble, i.e. not on the stack of
	// RunOne's goroutine
	blocks := strings.Split(stacks, "\n\n")
	for _, pass := range []int{0, 1} {
		for _, g := range blocks {
			if !strings.Contains(g, "seehuhn.de/go/") {
				continue
			}
			head := g
			if i := strings.Index(g, "\n"); i > 0 {
				head = g[:i]
			}
			busy := strings.Contains(head, "[running") || strings.Contains(head, "[runnable")
			if pass == 0 && !busy {
				continue
			}
			if f := topLibraryFrame([]byte(g)); f != "?" {
				return f
			}
		}
	}
	return "?"
}

// ReplayFile is the on-disk replay format.
type ReplayFile struct {
	Property    string            `json:"property"`
	Tier        string            `json:"tier"`
	Seed        uint64            `json:"seed"`
	Run         int               `json:"run"`
	Harness     int               `json:"harness_version"`
	Tape        []uint64          `json:"tape"`
	Labels      []tape.Rec        `json:"labels,omitempty"`
	Scenario    []Note            `json:"scenario,omitempty"`
	Violation   Violation         `json:"violation"`
	Shrunk      bool              `json:"shrunk"`
	OrigLen     int               `json:"orig_tape_len"`
	Reproduced  string            `json:"reproduced,omitempty"`
	Corner      string            `json:"corner,omitempty"`      // hand-written scenario instead of a tape
	FromSeed    bool              `json:"from_seed,omitempty"`   // regenerate the tape from Seed (hang/crash reports of seeded runs)
	Attachments map[string][]byte `json:"attachments,omitempty"` // binary artefacts (base64), e.g. the corrupted input image
	Comment     string            `json:"comment,omitempty"`
}

// ReplayResult is what a replay prints.
type ReplayResult struct {
	Violation *Violation `json:"violation"`
	Skip      string     `json:"skip,omitempty"`
	Scenario  []Note     `json:"scenario,omitempty"`
}

// Replay re-executes a replay file.
func Replay(tb *testing.T, rf *ReplayFile) *ReplayResult {
	p := Lookup(rf.Property)
	if p == nil {
		tb.Fatalf("unknown property %q", rf.Property)
	}
	tier := rf.Tier
	if tier == "" {
		tier = "quick"
	}
	if rf.Corner != "" {
		f := p.Corners[rf.Corner]
		if f == nil {
			tb.Fatalf("unknown corner scenario %q", rf.Corner)
		}
		cp := *p
		cp.Run = f
		p = &cp
	}
	tp := tape.Replay(rf.Tape)
	if rf.FromSeed {
		tp = tape.New(rf.Seed)
	}
	out := RunOneGiven(p, tb, tier, tp, true, rf.Attachments)
	return &ReplayResult{Violation: out.Viol, Skip: out.Skip, Scenario: out.Notes}
}

// StartReplayWatchdog arms the hang watchdog for a replay.
func StartReplayWatchdog(out string, timeoutS int) func() {
	currentStart.Store(time.Now().UnixNano())
	currentRun.Store(-2)
	stop := startWatchdog(WorkerConfig{Out: out}, timeoutS)
	return func() { currentStart.Store(0); stop() }
}

func sortedCounts(m map[string]int) string {
	ks := make([]string, 0, len(m))
	for k := range m {
		ks = append(ks, k)
	}
	sort.Strings(ks)
	var sb strings.Builder
	for _, k := range ks {
		if strings.HasPrefix(k, "measured: ") {
			// measurements (not choices or verdicts) stay out of the event log
			// that the determinism self-test compares: the library's own map
			// iteration makes the amount of work of a walk vary by a fraction
			// of a percent between processes
			continue
		}
		fmt.Fprintf(&sb, "%s=%d;", k, m[k])
	}
	return sb.String()
}
