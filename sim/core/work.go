package core

import (
	"expvar"
	"strings"
	"sync"
)

// The simulated clock.  cmd/instr -mode work inserts a tick at every function
// entry and loop iteration of selected packages of the library (through a build
// overlay, nothing is changed in /repo) and publishes the per-package counters
// through expvar, the only seam that both the harness module and the library's
// internal packages can reach.  The sum is a deterministic measure of the time a
// piece of work takes: independent of machine, load and the other workers.
var (
	workOnce     sync.Once
	workCounters []expvar.Func
	workNames    []string
)

func workInit() {
	expvar.Do(func(kv expvar.KeyValue) {
		if f, ok := kv.Value.(expvar.Func); ok && strings.HasPrefix(kv.Key, "verif.work.") {
			workCounters = append(workCounters, f)
			workNames = append(workNames, strings.TrimPrefix(kv.Key, "verif.work."))
		}
	})
}

// WorkByPackage returns the current tick count per instrumented package.
func WorkByPackage() map[string]int64 {
	workOnce.Do(workInit)
	out := make(map[string]int64, len(workCounters))
	for i, f := range workCounters {
		out[workNames[i]] = f.Value().(int64)
	}
	return out
}

// WorkActive reports whether the binary was built with the work counter.
func WorkActive() bool {
	workOnce.Do(workInit)
	return len(workCounters) > 0
}

// WorkNow returns the current tick count (0 without instrumentation).
func WorkNow() int64 {
	workOnce.Do(workInit)
	var n int64
	for _, f := range workCounters {
		n += f.Value().(int64)
	}
	return n
}

// WorkIn returns the ticks counted in packages whose directory starts with the
// given prefix (relative to the repository root).
func WorkIn(prefix string) int64 {
	workOnce.Do(workInit)
	var n int64
	for i, f := range workCounters {
		if strings.HasPrefix(workNames[i], prefix) {
			n += f.Value().(int64)
		}
	}
	return n
}
