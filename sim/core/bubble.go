package core

import (
	"fmt"
	"runtime/debug"
	"strings"
	"testing"
	"testing/synctest"
)

// InBubble runs f inside a testing/synctest bubble.  When f returns, every
// goroutine started inside the bubble must have exited; a goroutine that is
// left durably blocked is detected exactly (synctest reports it as a
// deadlock of the bubble) and returned as leaked=true.  A panic in f is
// converted into a violation like in RunOne.
func (e *Env) InBubble(f func()) (leaked bool) {
	var pval any
	var pstack []byte
	func() {
		defer func() {
			if r := recover(); r != nil {
				msg := fmt.Sprint(r)
				if strings.Contains(msg, "blocked goroutines remain") {
					leaked = true
					return
				}
				panic(r)
			}
		}()
		synctest.Test(e.TB, func(t *testing.T) {
			defer func() {
				if r := recover(); r != nil {
					pval = r
					pstack = debug.Stack()
				}
			}()
			f()
			synctest.Wait()
		})
	}()
	if pval != nil {
		class, attrs, msg := PanicViolation(pval, pstack)
		e.Fail(class, attrs, "%s", msg)
	}
	return leaked
}
