package core

import (
	"bytes"
	"compress/zlib"
	"fmt"
	"io"

	"seehuhn.de/go/membudget"
	"seehuhn.de/go/pdf"
)

var canaryA, canaryB, canaryEncA, canaryEncB = func() (a, b, ea, eb []byte) {
	a = make([]byte, 3000)
	b = make([]byte, 5000)
	x := uint32(1)
	for i := range a {
		x = x*1664525 + 1013904223
		a[i] = byte(x >> 24)
	}
	for i := range b {
		x = x*1664525 + 1013904223
		b[i] = byte(x>>24) & 0x3f
	}
	enc := func(d []byte) []byte {
		var buf bytes.Buffer
		zw := zlib.NewWriter(&buf)
		zw.Write(d)
		zw.Close()
		return buf.Bytes()
	}
	return a, b, enc(a), enc(b)
}()

// FlateCanary decodes two different Flate streams at the same time, reading
// them alternately, and reports an error unless each yields its own data.  It
// detects process-wide decoder state shared between two open streams (a zlib
// reader handed out twice by the library's pool).  Checks call it at the end of
// a run, so that the run which damaged the pool is the run that fails.
func FlateCanary() (err error) {
	defer func() {
		if r := recover(); r != nil {
			err = fmt.Errorf("panic while two Flate streams were open: %v", r)
		}
	}()
	open := func(enc []byte) (io.ReadCloser, error) {
		return pdf.FilterFlate{}.Decode(pdf.V1_7, bytes.NewReader(enc), membudget.New(1<<30))
	}
	ra, err := open(canaryEncA)
	if err != nil {
		return err
	}
	defer ra.Close()
	rb, err := open(canaryEncB)
	if err != nil {
		return err
	}
	defer rb.Close()
	var ga, gb []byte
	bufA, bufB := make([]byte, 777), make([]byte, 1301)
	doneA, doneB := false, false
	for !doneA || !doneB {
		if !doneA {
			n, err := ra.Read(bufA)
			ga = append(ga, bufA[:n]...)
			if err != nil {
				doneA = true
				if err != io.EOF {
					return fmt.Errorf("stream A: %v", err)
				}
			}
		}
		if !doneB {
			n, err := rb.Read(bufB)
			gb = append(gb, bufB[:n]...)
			if err != nil {
				doneB = true
				if err != io.EOF {
					return fmt.Errorf("stream B: %v", err)
				}
			}
		}
		if len(ga) > 2*len(canaryA) || len(gb) > 2*len(canaryB) {
			break
		}
	}
	if !bytes.Equal(ga, canaryA) {
		return fmt.Errorf("stream A decoded to %d bytes that are not its own data (%d expected)", len(ga), len(canaryA))
	}
	if !bytes.Equal(gb, canaryB) {
		return fmt.Errorf("stream B decoded to %d bytes that are not its own data (%d expected)", len(gb), len(canaryB))
	}
	return nil
}
