package core

import (
	"bytes"
	"compress/zlib"
	"fmt"
	"io"

	"seehuhn.de/go/membudget"
	"seehuhn.de/go/pdf"
)

var canaryA, canaryB, canaryEncA, canaryEncB = func() (a, b, ea, eb []byte) {
	a = make([]byte, 3000)
	b = make([]byte, 5000)
	x := uint32(1)
	for i := range a {
		x = x*1664525 + 1013904223
		a[i] = byte(x >> 24)
	}
	for i := range b {
		x = x*1664525 + 1013904223
		b[i] = byte(x>>24) & 0x3f
	}
	enc := func(d []byte) []byte {
		var buf bytes.Buffer
		zw := zlib.NewWriter(&buf)
		zw.Write(d)
		zw.Close()
		return buf.Bytes()
	}
	return a, b, enc(a), enc(b)
}()

// FlateCanary decodes two different Flate streams at the same time, reading
// them alternately, and reports an error unless each yields its own data.  It
// detects process-wide decoder state shared between two open streams (a zlib
// reader handed out twice by the library's pool).  Checks call it at the end of
// a run, so that the run which damaged the pool is the run that fails.
func FlateCanary() (err error) {
	defer func() {
		if r := recover(); r != nil {
			err = fmt.Errorf("panic while two Flate streams were open: %v", r)
		}
	}()
	open := func(enc []byte) (io.ReadCloser, error) {
		return pdf.FilterFlate{}.Decode(pdf.V1_7, bytes.NewReader(enc), membudget.New(1<<30))
	}
	// four streams at once, so that a reader that sits in the pool twice is
	// handed out twice whatever else the pool holds
	want := [][]byte{canaryA, canaryB, canaryA, canaryB}
	encs := [][]byte{canaryEncA, canaryEncB, canaryEncA, canaryEncB}
	var rcs []io.ReadCloser
	defer func() {
		for _, rc := range rcs {
			rc.Close()
		}
	}()
	for _, enc := range encs {
		rc, err := open(enc)
		if err != nil {
			return err
		}
		rcs = append(rcs, rc)
	}
	got := make([][]byte, len(rcs))
	done := make([]bool, len(rcs))
	bufs := [][]byte{make([]byte, 777), make([]byte, 1301), make([]byte, 500), make([]byte, 2048)}
	for left := len(rcs); left > 0; {
		for i, rc := range rcs {
			if done[i] {
				continue
			}
			n, err := rc.Read(bufs[i])
			got[i] = append(got[i], bufs[i][:n]...)
			if err != nil || len(got[i]) > 2*len(want[i]) {
				done[i] = true
				left--
				if err != nil && err != io.EOF {
					return fmt.Errorf("stream %d: %v", i, err)
				}
			}
		}
	}
	for i := range want {
		if !bytes.Equal(got[i], want[i]) {
			return fmt.Errorf("stream %d decoded to %d bytes that are not its own data (%d expected)", i, len(got[i]), len(want[i]))
		}
	}
	return nil
}

// FlateEncodeCanary is the write-side counterpart of FlateCanary: four Flate
// encoders are alive at the same time and are written to alternately; each
// output must inflate (with the standard library) to the data of its own
// encoder.  It detects a compressor that the library's pool handed out twice.
func FlateEncodeCanary() (err error) {
	defer func() {
		if r := recover(); r != nil {
			err = fmt.Errorf("panic while several Flate encoders were open: %v", r)
		}
	}()
	want := [][]byte{canaryA, canaryB, canaryB, canaryA}
	bufs := make([]*nopCloseBuffer, len(want))
	encs := make([]io.WriteCloser, len(want))
	for i := range want {
		bufs[i] = &nopCloseBuffer{}
		enc, err := pdf.FilterFlate{}.Encode(pdf.V1_7, bufs[i])
		if err != nil {
			return err
		}
		encs[i] = enc
	}
	for off := 0; off < 5000; off += 700 {
		for i, enc := range encs {
			if off < len(want[i]) {
				if _, err := enc.Write(want[i][off:min(off+700, len(want[i]))]); err != nil {
					return fmt.Errorf("encoder %d: %v", i, err)
				}
			}
		}
	}
	for i, enc := range encs {
		if err := enc.Close(); err != nil {
			return fmt.Errorf("encoder %d: Close: %v", i, err)
		}
	}
	for i := range want {
		zr, err := zlib.NewReader(bytes.NewReader(bufs[i].Bytes()))
		if err != nil {
			return fmt.Errorf("output of encoder %d is not a zlib stream: %v", i, err)
		}
		got, err := io.ReadAll(zr)
		if err != nil || !bytes.Equal(got, want[i]) {
			return fmt.Errorf("output of encoder %d inflates to %d bytes that are not its own data (%d expected, err %v)", i, len(got), len(want[i]), err)
		}
	}
	return nil
}

type nopCloseBuffer struct{ bytes.Buffer }

func (*nopCloseBuffer) Close() error { return nil }
