// Package simsched is a cooperative scheduler for real goroutines inside a
// testing/synctest bubble: tasks run real library code, but only one task is
// ever runnable.  Each task parks at every yield point; after synctest.Wait
// has established that all goroutines are durably blocked, the scheduler draws
// the next task from the tape among those that are runnable.  Mutexes and
// channel closes are modelled so that a blocked task is not runnable and a
// deadlock is detected (no runnable task while some task is unfinished)
// instead of hanging the process.
package simsched

import (
	"fmt"
	"runtime/debug"
	"sort"
	"strings"
	"testing/synctest"

	"verif/sim/tape"
)

type state int

const (
	ready state = iota
	running
	blockedMutex
	blockedChan
	done
)

// Task is one simulated caller thread.
type Task struct {
	ID        int
	Name      string
	fn        func()
	wake      chan struct{}
	st        state
	wait      any    // mutex or channel the task is blocked on
	site      string // last yield site
	prio      int
	Panic     any
	Stack     []byte
	chanParks int
}

type mstate struct {
	writer  *Task
	readers map[*Task]int
}

// Event is one scheduling decision.
type Event struct {
	Task int
	Site string
}

// Sched runs tasks.
type Sched struct {
	t         *tape.Tape
	tasks     []*Task
	cur       *Task
	mutexes   map[any]*mstate
	closed    map[any]bool
	Steps     int
	MaxStep   int
	Trace     []Event
	KeepTrace bool
	sig       uint64

	Strategy   int // 0 random, 1 PCT, 2 run-until-blocked, 3 round robin
	changeAt   map[int]bool
	rr         int
	Deadlock   string
	Overrun    bool
	Stuck      string
	Probes     map[string]int
	pools      map[any][]any
	PoolErrors []string
	PoolPolicy int // 0: LIFO hit, 1: drawn hit/miss and element
}

// New creates a scheduler; strategy and its parameters are drawn from the tape.
func New(t *tape.Tape) *Sched {
	s := &Sched{t: t, mutexes: map[any]*mstate{}, closed: map[any]bool{}, MaxStep: 20000, Probes: map[string]int{}, pools: map[any][]any{}, changeAt: map[int]bool{}}
	s.Strategy = t.Weighted("sched.strategy", 4, 3, 2, 1)
	if s.Strategy == 1 {
		d := 1 + t.Draw("sched.pct.d", 3)
		for i := 0; i < d; i++ {
			s.changeAt[t.Draw(fmt.Sprintf("sched.pct.at%d", i), 60)] = true
		}
	}
	s.PoolPolicy = t.Draw("sched.pool", 2)
	return s
}

// Go registers a task.  Must be called before Run or from a running task.
func (s *Sched) Go(name string, fn func()) *Task {
	tk := &Task{ID: len(s.tasks), Name: name, fn: fn, wake: make(chan struct{}), st: ready}
	tk.prio = s.t.Draw(fmt.Sprintf("sched.prio.%d", tk.ID), 1000)
	s.tasks = append(s.tasks, tk)
	go func() {
		<-tk.wake
		defer func() {
			if r := recover(); r != nil {
				tk.Panic = r
				tk.Stack = debug.Stack()
			}
			tk.st = done
		}()
		tk.fn()
	}()
	return tk
}

// Current returns the running task (nil outside Run).
func (s *Sched) Current() *Task { return s.cur }

// Yield parks the current task at a named site.
func (s *Sched) Yield(site string) {
	tk := s.cur
	if tk == nil {
		return
	}
	tk.site = site
	tk.st = ready
	<-tk.wake
}

func (s *Sched) block(st state, on any, site string) {
	tk := s.cur
	tk.site = site
	tk.st = st
	tk.wait = on
	<-tk.wake
}

// Lock models acquiring a mutex; it returns when the model has granted it.
func (s *Sched) Lock(m any, write bool, site string) {
	if s.cur == nil {
		return
	}
	s.Yield("lock " + site)
	for {
		ms := s.mutexes[m]
		if ms == nil {
			ms = &mstate{readers: map[*Task]int{}}
			s.mutexes[m] = ms
		}
		if write {
			if ms.writer == s.cur {
				// self-deadlock: never granted
				s.block(blockedMutex, m, "lock "+site+" (already held by this task)")
				continue
			}
			if ms.writer == nil && len(ms.readers) == 0 {
				ms.writer = s.cur
				return
			}
		} else {
			if ms.writer == nil {
				ms.readers[s.cur]++
				return
			}
		}
		s.Probes["task blocked on a held mutex"]++
		s.block(blockedMutex, m, "lock "+site)
	}
}

// Unlock models releasing a mutex.
func (s *Sched) Unlock(m any, write bool, site string) {
	if s.cur == nil {
		return
	}
	ms := s.mutexes[m]
	if ms != nil {
		if write {
			ms.writer = nil
		} else {
			ms.readers[s.cur]--
			if ms.readers[s.cur] <= 0 {
				delete(ms.readers, s.cur)
			}
		}
	}
	for _, tk := range s.tasks {
		if tk.st == blockedMutex && tk.wait == m {
			tk.st = ready
		}
	}
}

// Recv models a receive from a channel that is only ever closed.
func (s *Sched) Recv(ch any, site string) {
	if s.cur == nil {
		return
	}
	s.Yield("recv " + site)
	for !s.closed[ch] {
		s.cur.chanParks++
		s.Probes["task parked on a channel"]++
		s.block(blockedChan, ch, "recv "+site)
	}
}

func (s *Sched) BeforeClose(ch any, site string) {
	if s.cur == nil {
		return
	}
	s.Yield("close " + site)
}

func (s *Sched) AfterClose(ch any, site string) {
	s.closed[ch] = true
	for _, tk := range s.tasks {
		if tk.st == blockedChan && tk.wait == ch {
			tk.st = ready
		}
	}
}

// PoolGet and PoolPut implement the pool policy.
func (s *Sched) PoolGet(p any) (any, bool) {
	if s.cur != nil {
		s.Yield("pool.Get")
	}
	items := s.pools[p]
	if len(items) == 0 {
		s.Probes["pool miss"]++
		return nil, false
	}
	i := len(items) - 1
	if s.PoolPolicy == 1 {
		k := s.t.Draw("pool.pick", len(items)+1)
		if k == len(items) {
			s.Probes["pool miss"]++
			return nil, false
		}
		i = k
	}
	x := items[i]
	s.pools[p] = append(items[:i:i], items[i+1:]...)
	s.Probes["pool hit"]++
	return x, true
}

func (s *Sched) PoolPut(p any, x any) {
	if s.cur != nil {
		s.Yield("pool.Put")
	}
	for _, y := range s.pools[p] {
		if y == x {
			s.PoolErrors = append(s.PoolErrors, fmt.Sprintf("object %p put into the pool twice without a Get in between", x))
			return
		}
	}
	s.pools[p] = append(s.pools[p], x)
}

// Run schedules until all tasks are done, a deadlock is found or the step
// budget is exhausted.  It must be called from the bubble's main goroutine.
func (s *Sched) Run() {
	for {
		synctest.Wait()
		if s.cur != nil && s.cur.st == running {
			// the task neither parked nor finished: it is blocked on something
			// the model does not know
			s.Stuck = fmt.Sprintf("task %s is blocked outside the scheduler's model after %q", s.cur.Name, s.cur.site)
			s.cur = nil
			return
		}
		var runnable []*Task
		unfinished := 0
		for _, tk := range s.tasks {
			if tk.st == ready {
				runnable = append(runnable, tk)
			}
			if tk.st != done {
				unfinished++
			}
		}
		if unfinished == 0 {
			s.cur = nil
			return
		}
		if len(runnable) == 0 {
			s.Deadlock = s.waitGraph()
			s.cur = nil
			return
		}
		if s.Steps >= s.MaxStep {
			s.Overrun = true
			s.cur = nil
			return
		}
		next := s.pick(runnable)
		s.Steps++
		s.sig = tape.Mix(s.sig, uint64(next.ID), tape.HashString(next.site))
		if s.KeepTrace {
			s.Trace = append(s.Trace, Event{next.ID, next.site})
		}
		next.st = running
		s.cur = next
		next.wake <- struct{}{}
	}
}

func (s *Sched) pick(runnable []*Task) *Task {
	switch s.Strategy {
	case 1: // PCT: highest priority runs; at change points the running task drops
		if s.changeAt[s.Steps] && s.cur != nil {
			s.cur.prio = -s.Steps
		}
		best := runnable[0]
		for _, tk := range runnable[1:] {
			if tk.prio > best.prio {
				best = tk
			}
		}
		return best
	case 2: // stay on one task until it blocks, then draw
		for _, tk := range runnable {
			if tk == s.cur {
				if s.t.Draw("sched.stay", 8) != 7 {
					return tk
				}
			}
		}
		return runnable[s.t.Draw("sched.pick", len(runnable))]
	case 3:
		s.rr++
		return runnable[s.rr%len(runnable)]
	default:
		return runnable[s.t.Draw("sched.pick", len(runnable))]
	}
}

func (s *Sched) waitGraph() string {
	var lines []string
	for _, tk := range s.tasks {
		switch tk.st {
		case blockedMutex:
			holder := "?"
			if ms := s.mutexes[tk.wait]; ms != nil && ms.writer != nil {
				holder = ms.writer.Name
			}
			lines = append(lines, fmt.Sprintf("%s waits for a mutex held by %s at %s", tk.Name, holder, tk.site))
		case blockedChan:
			lines = append(lines, fmt.Sprintf("%s waits for a channel that nobody will close at %s", tk.Name, tk.site))
		}
	}
	sort.Strings(lines)
	return strings.Join(lines, "; ")
}

// ParkedOnChan reports how often the task with the given id had to wait for
// a channel so far.
func (s *Sched) ParkedOnChan(id int) int {
	if id < 0 || id >= len(s.tasks) {
		return 0
	}
	return s.tasks[id].chanParks
}

// Signature identifies the interleaving.
func (s *Sched) Signature() uint64 { return s.sig }

// Tasks returns the tasks.
func (s *Sched) Tasks() []*Task { return s.tasks }
