//go:build simsched

package harness

import (
	_ "verif/sim/props/c18"
)
