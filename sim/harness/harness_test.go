package harness

import (
	"encoding/json"
	"os"
	"strconv"
	"testing"

	"verif/sim/core"
)

func envInt(name string, def int) int {
	if s := os.Getenv(name); s != "" {
		n, err := strconv.Atoi(s)
		if err == nil {
			return n
		}
	}
	return def
}

// TestWorker is the entry point the driver invokes.
func TestWorker(t *testing.T) {
	out := os.Getenv("VSIM_OUT")
	if out == "" {
		t.Skip("VSIM_OUT not set; this binary is driven by /verif/bin/check")
	}
	if id := os.Getenv("VSIM_DESCRIBE"); id != "" {
		p := core.Lookup(id)
		if p == nil {
			t.Fatalf("unknown property %q (have %v)", id, core.IDs())
		}
		ob, _ := json.Marshal(map[string]any{"Level": p.Level, "Rule": p.Rule, "Assumptions": p.Assumptions, "Real": p.Real, "Stub": p.Stub,
			"Quick": p.Quick, "Thorough": p.Thorough, "WantProbes": p.WantProbes})
		if err := os.WriteFile(out, ob, 0o644); err != nil {
			t.Fatal(err)
		}
		return
	}
	if rp := os.Getenv("VSIM_REPLAY"); rp != "" {
		b, err := os.ReadFile(rp)
		if err != nil {
			t.Fatal(err)
		}
		var rf core.ReplayFile
		if err := json.Unmarshal(b, &rf); err != nil {
			t.Fatal(err)
		}
		stop := core.StartReplayWatchdog(out, envInt("VSIM_TIMEOUT_S", 300))
		res := core.Replay(t, &rf)
		stop()
		ob, _ := json.MarshalIndent(res, "", " ")
		if err := os.WriteFile(out, ob, 0o644); err != nil {
			t.Fatal(err)
		}
		return
	}
	seed, _ := strconv.ParseUint(os.Getenv("VSIM_SEED"), 10, 64)
	cfg := core.WorkerConfig{
		Prop:       os.Getenv("VSIM_PROP"),
		Tier:       os.Getenv("VSIM_TIER"),
		Seed:       seed,
		Worker:     envInt("VSIM_WORKER", 0),
		Workers:    envInt("VSIM_WORKERS", 1),
		Runs:       envInt("VSIM_RUNS", 100),
		Secs:       envInt("VSIM_SECS", 30),
		Out:        out,
		ShrinkS:    envInt("VSIM_SHRINK_S", 15),
		Progress:   os.Getenv("VSIM_PROGRESS"),
		OnlyRun:    envInt("VSIM_ONLY_RUN", -1),
		MaxClasses: envInt("VSIM_MAX_CLASSES", 0),
		EventLog:   os.Getenv("VSIM_EVENTLOG"),
	}
	sum := core.Worker(t, cfg)
	ob, _ := json.Marshal(sum)
	if err := os.WriteFile(out, ob, 0o644); err != nil {
		t.Fatal(err)
	}
}
