// Package harness links all property harnesses into one test binary.
package harness

import (
	_ "verif/sim/props/c02"
	_ "verif/sim/props/c03"
	_ "verif/sim/props/c04"
	_ "verif/sim/props/c05"
	_ "verif/sim/props/c06"
	_ "verif/sim/props/c08"
	_ "verif/sim/props/c11"
	_ "verif/sim/props/c15"
	_ "verif/sim/props/c16"
	_ "verif/sim/props/c19"
	_ "verif/sim/props/c20"
)
