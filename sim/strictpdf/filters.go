package strictpdf

import (
	"fmt"
)

// DecodeChain decodes a stream's data through its /Filter chain using
// decoders written from the specification.  supported is false if the chain
// contains a filter (or predictor) this validator does not implement.
func DecodeChain(s *Stream) (data []byte, supported bool, err error) {
	var names []Name
	var parms []Dict
	switch flt := s.Dict["Filter"].(type) {
	case nil:
	case Name:
		names = []Name{flt}
		p, _ := s.Dict["DecodeParms"].(Dict)
		parms = []Dict{p}
	case Array:
		pa, _ := s.Dict["DecodeParms"].(Array)
		for i, x := range flt {
			n, ok := x.(Name)
			if !ok {
				return nil, true, fmt.Errorf("/Filter element %d is %T", i, x)
			}
			names = append(names, n)
			var p Dict
			if i < len(pa) {
				p, _ = pa[i].(Dict)
			}
			parms = append(parms, p)
		}
		if pa != nil && len(pa) != len(flt) {
			return nil, true, fmt.Errorf("/DecodeParms has %d entries for %d filters", len(pa), len(flt))
		}
	default:
		return nil, true, fmt.Errorf("/Filter is %T", flt)
	}
	data = s.Raw
	for i, n := range names {
		switch n {
		case "FlateDecode":
			if p, _ := parms[i]["Predictor"].(Integer); p > 1 && p < 10 {
				return nil, false, nil
			}
			data, err = decodeFlate(data, parms[i])
		case "ASCIIHexDecode":
			data, err = decodeHex(data)
		case "ASCII85Decode":
			data, err = decodeA85(data)
		case "RunLengthDecode":
			data, err = decodeRL(data)
		default:
			return nil, false, nil
		}
		if err != nil {
			return nil, true, fmt.Errorf("%s: %v", string(n), err)
		}
	}
	return data, true, nil
}

func decodeHex(b []byte) ([]byte, error) {
	var out []byte
	hi := -1
	for i, c := range b {
		if c == '>' {
			if hi >= 0 {
				out = append(out, byte(hi<<4))
			}
			if rest := b[i+1:]; len(trimSpace(rest)) != 0 {
				return nil, fmt.Errorf("data after EOD")
			}
			return out, nil
		}
		if isSpace(c) {
			continue
		}
		v := hexVal(c)
		if v < 0 {
			return nil, fmt.Errorf("invalid byte %q", c)
		}
		if hi < 0 {
			hi = v
		} else {
			out = append(out, byte(hi<<4|v))
			hi = -1
		}
	}
	return nil, fmt.Errorf("missing EOD marker '>'")
}

func trimSpace(b []byte) []byte {
	for len(b) > 0 && isSpace(b[0]) {
		b = b[1:]
	}
	return b
}

func decodeA85(b []byte) ([]byte, error) {
	var out []byte
	var grp [5]byte
	k := 0
	for i := 0; i < len(b); i++ {
		c := b[i]
		switch {
		case isSpace(c):
		case c == 'z' && k == 0:
			out = append(out, 0, 0, 0, 0)
		case c == '~':
			if i+1 >= len(b) || b[i+1] != '>' {
				return nil, fmt.Errorf("malformed EOD")
			}
			if k == 1 {
				return nil, fmt.Errorf("final group of one character")
			}
			if k > 1 {
				for j := k; j < 5; j++ {
					grp[j] = 84
				}
				v := uint64(0)
				for j := 0; j < 5; j++ {
					v = v*85 + uint64(grp[j])
				}
				if v > 0xffffffff {
					return nil, fmt.Errorf("group overflow")
				}
				full := []byte{byte(v >> 24), byte(v >> 16), byte(v >> 8), byte(v)}
				out = append(out, full[:k-1]...)
			}
			if len(trimSpace(b[i+2:])) != 0 {
				return nil, fmt.Errorf("data after EOD")
			}
			return out, nil
		case c >= '!' && c <= 'u':
			grp[k] = c - '!'
			k++
			if k == 5 {
				v := uint64(0)
				for j := 0; j < 5; j++ {
					v = v*85 + uint64(grp[j])
				}
				if v > 0xffffffff {
					return nil, fmt.Errorf("group overflow")
				}
				out = append(out, byte(v>>24), byte(v>>16), byte(v>>8), byte(v))
				k = 0
			}
		default:
			return nil, fmt.Errorf("invalid byte %q", c)
		}
	}
	return nil, fmt.Errorf("missing EOD marker '~>'")
}

func decodeRL(b []byte) ([]byte, error) {
	var out []byte
	i := 0
	for i < len(b) {
		l := int(b[i])
		i++
		switch {
		case l == 128:
			if i != len(b) {
				return nil, fmt.Errorf("data after EOD")
			}
			return out, nil
		case l < 128:
			if i+l+1 > len(b) {
				return nil, fmt.Errorf("literal run past end")
			}
			out = append(out, b[i:i+l+1]...)
			i += l + 1
		default:
			if i >= len(b) {
				return nil, fmt.Errorf("repeat run past end")
			}
			for k := 0; k < 257-l; k++ {
				out = append(out, b[i])
			}
			i++
		}
	}
	return nil, fmt.Errorf("missing EOD marker 128")
}
