// Package strictpdf is a strict PDF file parser written from ISO 32000 for
// use as an independent oracle.  It shares no code with seehuhn/go-pdf (it
// imports only the standard library) and it is deliberately unforgiving: any
// deviation from the file structure rules it knows is an error.
package strictpdf

import (
	"fmt"
	"strconv"
)

// Value is a PDF object: nil, bool, Integer, Real, Name, String, Array, Dict,
// Ref or *Stream.
type Value any

type Integer int64
type Real float64
type Name string
type String []byte
type Array []Value
type Dict map[Name]Value
type Ref struct {
	Num uint32
	Gen uint16
}
type Stream struct {
	Dict  Dict
	Raw   []byte // bytes between "stream" EOL and the EOL before "endstream"
	Start int64  // file offset of Raw
}

func isSpace(c byte) bool {
	return c == 0 || c == 9 || c == 10 || c == 12 || c == 13 || c == 32
}

func isDelim(c byte) bool {
	switch c {
	case '(', ')', '<', '>', '[', ']', '{', '}', '/', '%':
		return true
	}
	return false
}

func isRegular(c byte) bool { return !isSpace(c) && !isDelim(c) }

type lexer struct {
	b   []byte
	pos int
}

type perr struct {
	pos int
	msg string
}

func (e *perr) Error() string { return fmt.Sprintf("offset %d: %s", e.pos, e.msg) }

func (l *lexer) errf(format string, args ...any) error {
	return &perr{l.pos, fmt.Sprintf(format, args...)}
}

func (l *lexer) skipSpace() {
	for l.pos < len(l.b) {
		c := l.b[l.pos]
		if isSpace(c) {
			l.pos++
		} else if c == '%' {
			for l.pos < len(l.b) && l.b[l.pos] != '\n' && l.b[l.pos] != '\r' {
				l.pos++
			}
		} else {
			return
		}
	}
}

func (l *lexer) hasPrefix(s string) bool {
	return l.pos+len(s) <= len(l.b) && string(l.b[l.pos:l.pos+len(s)]) == s
}

// keyword consumes s, which must be followed by a non-regular byte or EOF.
func (l *lexer) keyword(s string) bool {
	if !l.hasPrefix(s) {
		return false
	}
	end := l.pos + len(s)
	if end < len(l.b) && isRegular(l.b[end]) {
		return false
	}
	l.pos = end
	return true
}

const maxDepth = 300

func (l *lexer) object(depth int) (Value, error) {
	if depth > maxDepth {
		return nil, l.errf("nesting too deep")
	}
	l.skipSpace()
	if l.pos >= len(l.b) {
		return nil, l.errf("unexpected end of data")
	}
	c := l.b[l.pos]
	switch {
	case c == '/':
		return l.name()
	case c == '(':
		return l.literalString()
	case c == '<':
		if l.hasPrefix("<<") {
			return l.dict(depth)
		}
		return l.hexString()
	case c == '[':
		l.pos++
		var arr Array = Array{}
		for {
			l.skipSpace()
			if l.pos >= len(l.b) {
				return nil, l.errf("unterminated array")
			}
			if l.b[l.pos] == ']' {
				l.pos++
				return arr, nil
			}
			v, err := l.objectOrRef(depth + 1)
			if err != nil {
				return nil, err
			}
			arr = append(arr, v)
		}
	case c == '+' || c == '-' || c == '.' || (c >= '0' && c <= '9'):
		return l.number()
	default:
		if l.keyword("null") {
			return nil, nil
		}
		if l.keyword("true") {
			return true, nil
		}
		if l.keyword("false") {
			return false, nil
		}
		return nil, l.errf("unexpected byte %q", c)
	}
}

// objectOrRef parses an object and recognises "n g R".
func (l *lexer) objectOrRef(depth int) (Value, error) {
	v, err := l.object(depth)
	if err != nil {
		return nil, err
	}
	n, ok := v.(Integer)
	if !ok || n < 0 {
		return v, nil
	}
	save := l.pos
	l.skipSpace()
	if l.pos < len(l.b) && l.b[l.pos] >= '0' && l.b[l.pos] <= '9' {
		v2, err := l.number()
		if err == nil {
			if g, ok := v2.(Integer); ok && g >= 0 && g <= 65535 {
				l.skipSpace()
				if l.keyword("R") {
					if n > 0xffffffff {
						return nil, l.errf("object number out of range")
					}
					return Ref{uint32(n), uint16(g)}, nil
				}
			}
		}
	}
	l.pos = save
	return v, nil
}

func (l *lexer) number() (Value, error) {
	start := l.pos
	if l.pos < len(l.b) && (l.b[l.pos] == '+' || l.b[l.pos] == '-') {
		l.pos++
	}
	digits, dots := 0, 0
	for l.pos < len(l.b) {
		c := l.b[l.pos]
		if c >= '0' && c <= '9' {
			digits++
		} else if c == '.' {
			dots++
		} else {
			break
		}
		l.pos++
	}
	if l.pos < len(l.b) && isRegular(l.b[l.pos]) {
		return nil, l.errf("malformed number")
	}
	s := string(l.b[start:l.pos])
	if digits == 0 || dots > 1 {
		return nil, &perr{start, fmt.Sprintf("malformed number %q", s)}
	}
	if dots == 0 {
		n, err := strconv.ParseInt(s, 10, 64)
		if err != nil {
			return nil, &perr{start, fmt.Sprintf("integer out of range %q", s)}
		}
		return Integer(n), nil
	}
	f, err := strconv.ParseFloat(s, 64)
	if err != nil {
		return nil, &perr{start, fmt.Sprintf("malformed real %q", s)}
	}
	return Real(f), nil
}

func hexVal(c byte) int {
	switch {
	case c >= '0' && c <= '9':
		return int(c - '0')
	case c >= 'a' && c <= 'f':
		return int(c-'a') + 10
	case c >= 'A' && c <= 'F':
		return int(c-'A') + 10
	}
	return -1
}

func (l *lexer) name() (Value, error) {
	l.pos++ // '/'
	var out []byte
	for l.pos < len(l.b) && isRegular(l.b[l.pos]) {
		c := l.b[l.pos]
		if c == '#' {
			if l.pos+2 >= len(l.b) || hexVal(l.b[l.pos+1]) < 0 || hexVal(l.b[l.pos+2]) < 0 {
				return nil, l.errf("malformed #-escape in name")
			}
			out = append(out, byte(hexVal(l.b[l.pos+1])<<4|hexVal(l.b[l.pos+2])))
			l.pos += 3
			continue
		}
		if c < 0x21 || c > 0x7e {
			return nil, l.errf("byte %#x must be #-escaped in a name", c)
		}
		out = append(out, c)
		l.pos++
	}
	return Name(out), nil
}

func (l *lexer) literalString() (Value, error) {
	start := l.pos
	l.pos++
	depth := 1
	out := []byte{}
	for {
		if l.pos >= len(l.b) {
			return nil, &perr{start, "unterminated literal string"}
		}
		c := l.b[l.pos]
		l.pos++
		switch c {
		case '(':
			depth++
			out = append(out, c)
		case ')':
			depth--
			if depth == 0 {
				return String(out), nil
			}
			out = append(out, c)
		case '\r':
			// an unescaped EOL in a string is read as LF
			if l.pos < len(l.b) && l.b[l.pos] == '\n' {
				l.pos++
			}
			out = append(out, '\n')
		case '\\':
			if l.pos >= len(l.b) {
				return nil, &perr{start, "unterminated literal string"}
			}
			e := l.b[l.pos]
			l.pos++
			switch e {
			case 'n':
				out = append(out, '\n')
			case 'r':
				out = append(out, '\r')
			case 't':
				out = append(out, '\t')
			case 'b':
				out = append(out, '\b')
			case 'f':
				out = append(out, '\f')
			case '(', ')', '\\':
				out = append(out, e)
			case '\r':
				if l.pos < len(l.b) && l.b[l.pos] == '\n' {
					l.pos++
				}
			case '\n':
				// line continuation
			default:
				if e >= '0' && e <= '7' {
					v := int(e - '0')
					for k := 0; k < 2 && l.pos < len(l.b) && l.b[l.pos] >= '0' && l.b[l.pos] <= '7'; k++ {
						v = v*8 + int(l.b[l.pos]-'0')
						l.pos++
					}
					out = append(out, byte(v))
				} else {
					// the backslash is ignored
					out = append(out, e)
				}
			}
		default:
			out = append(out, c)
		}
	}
}

func (l *lexer) hexString() (Value, error) {
	start := l.pos
	l.pos++
	out := []byte{}
	hi := -1
	for {
		if l.pos >= len(l.b) {
			return nil, &perr{start, "unterminated hex string"}
		}
		c := l.b[l.pos]
		l.pos++
		if c == '>' {
			if hi >= 0 {
				out = append(out, byte(hi<<4))
			}
			return String(out), nil
		}
		if isSpace(c) {
			continue
		}
		v := hexVal(c)
		if v < 0 {
			return nil, l.errf("invalid byte %q in hex string", c)
		}
		if hi < 0 {
			hi = v
		} else {
			out = append(out, byte(hi<<4|v))
			hi = -1
		}
	}
}

func (l *lexer) dict(depth int) (Value, error) {
	start := l.pos
	l.pos += 2
	d := Dict{}
	for {
		l.skipSpace()
		if l.pos >= len(l.b) {
			return nil, &perr{start, "unterminated dictionary"}
		}
		if l.hasPrefix(">>") {
			l.pos += 2
			return d, nil
		}
		if l.b[l.pos] != '/' {
			return nil, l.errf("dictionary key is not a name")
		}
		k, err := l.name()
		if err != nil {
			return nil, err
		}
		v, err := l.objectOrRef(depth + 1)
		if err != nil {
			return nil, err
		}
		if _, dup := d[k.(Name)]; dup {
			return nil, l.errf("duplicate dictionary key /%s", string(k.(Name)))
		}
		d[k.(Name)] = v
	}
}
