package strictpdf

import (
	"bytes"
	"compress/zlib"
	"fmt"
	"io"
	"sort"
)

// Object is one indirect object found through the cross-reference data.
type Object struct {
	Ref       Ref
	Value     Value
	Start     int64 // offset of "N G obj"
	End       int64 // offset just after "endobj"
	InObjStm  uint32
	ObjStmIdx int
}

// File is the result of a strict parse.
type File struct {
	Version   string
	XRefKind  string // "table" or "stream"
	XRefPos   int64
	XRefEnd   int64 // end of the xref section incl. trailer dict (table) or xref stream object
	StartXRef int64 // offset of the startxref keyword
	Size      int
	Trailer   Dict
	Objects   map[Ref]*Object
	Free      map[uint32]uint16 // free entries: number -> generation
	XRefObj   Ref               // the xref stream object, if any
}

type entry struct {
	typ  int // 0 free, 1 in use, 2 compressed
	f2   int64
	f3   int64
	seen bool
}

// Parse parses and validates a complete single-revision PDF file.
func Parse(b []byte) (*File, error) {
	f := &File{Objects: map[Ref]*Object{}, Free: map[uint32]uint16{}}

	// header
	if len(b) < 9 || string(b[:5]) != "%PDF-" {
		return nil, fmt.Errorf("no %%PDF- header at offset 0")
	}
	if !(b[5] >= '1' && b[5] <= '2' && b[6] == '.' && b[7] >= '0' && b[7] <= '9') || (b[8] != '\n' && b[8] != '\r') {
		return nil, fmt.Errorf("malformed header line %q", b[:9])
	}
	f.Version = string(b[5:8])

	// %%EOF at the end, preceded by startxref <offset>
	tail := bytes.TrimRight(b, "\r\n")
	if !bytes.HasSuffix(tail, []byte("%%EOF")) {
		return nil, fmt.Errorf("file does not end with %%%%EOF")
	}
	if len(b)-len(tail) > 2 {
		return nil, fmt.Errorf("more than one EOL after %%%%EOF")
	}
	sx := bytes.LastIndex(tail, []byte("startxref"))
	if sx < 0 {
		return nil, fmt.Errorf("no startxref")
	}
	if sx == 0 || (b[sx-1] != '\n' && b[sx-1] != '\r') {
		return nil, fmt.Errorf("startxref is not at the start of a line")
	}
	f.StartXRef = int64(sx)
	l := &lexer{b: tail, pos: sx + len("startxref")}
	l.skipSpace()
	v, err := l.number()
	if err != nil {
		return nil, fmt.Errorf("startxref value: %v", err)
	}
	xpos, ok := v.(Integer)
	if !ok || xpos <= 0 || int(xpos) >= len(b) {
		return nil, fmt.Errorf("startxref value %v out of range", v)
	}
	if n := eolLen(tail, l.pos); n == 0 {
		return nil, fmt.Errorf("startxref value not followed by EOL")
	} else {
		l.pos += n
	}
	if string(tail[l.pos:]) != "%%EOF" {
		return nil, fmt.Errorf("unexpected data between startxref value and %%%%EOF: %q", tail[l.pos:])
	}
	f.XRefPos = int64(xpos)

	var entries map[uint32]*entry
	if bytes.HasPrefix(b[xpos:], []byte("xref")) {
		f.XRefKind = "table"
		entries, err = f.parseTable(b, int(xpos))
	} else {
		f.XRefKind = "stream"
		entries, err = f.parseXRefStream(b, int(xpos))
	}
	if err != nil {
		return nil, fmt.Errorf("cross-reference section at %d: %v", xpos, err)
	}
	if f.XRefEnd > f.StartXRef {
		return nil, fmt.Errorf("cross-reference section overlaps startxref")
	}
	if rest := bytes.TrimSpace(b[f.XRefEnd:f.StartXRef]); len(rest) != 0 {
		return nil, fmt.Errorf("startxref (%d) does not point at the last cross-reference section: %q lies between", xpos, rest)
	}
	if _, hasPrev := f.Trailer["Prev"]; hasPrev {
		return nil, fmt.Errorf("unexpected /Prev in a single-revision file")
	}

	// exactly one entry for every number below /Size
	sz, ok := f.Trailer["Size"].(Integer)
	if !ok || sz < 1 {
		return nil, fmt.Errorf("bad /Size %v", f.Trailer["Size"])
	}
	f.Size = int(sz)
	for n := uint32(0); n < uint32(sz); n++ {
		if entries[n] == nil {
			return nil, fmt.Errorf("object number %d (< /Size %d) has no cross-reference entry", n, sz)
		}
	}
	for n := range entries {
		if int64(n) >= int64(sz) {
			return nil, fmt.Errorf("cross-reference entry for object %d >= /Size %d", n, sz)
		}
	}
	if e0 := entries[0]; e0.typ != 0 {
		return nil, fmt.Errorf("object 0 is not free")
	}

	// in-use entries
	nums := make([]uint32, 0, len(entries))
	for n := range entries {
		nums = append(nums, n)
	}
	sort.Slice(nums, func(i, j int) bool { return nums[i] < nums[j] })
	for _, n := range nums {
		e := entries[n]
		switch e.typ {
		case 0:
			f.Free[n] = uint16(e.f3)
		case 1:
			if e.f3 < 0 || e.f3 > 65535 {
				return nil, fmt.Errorf("object %d: generation %d out of range", n, e.f3)
			}
			obj, err := f.parseIndirect(b, e.f2, Ref{n, uint16(e.f3)}, entries)
			if err != nil {
				return nil, fmt.Errorf("object %d %d (xref offset %d): %v", n, e.f3, e.f2, err)
			}
			f.Objects[obj.Ref] = obj
		}
	}
	// compressed entries (need the object streams parsed above)
	byStream := map[uint32][]uint32{}
	for _, n := range nums {
		if e := entries[n]; e.typ == 2 {
			byStream[uint32(e.f2)] = append(byStream[uint32(e.f2)], n)
		}
	}
	var snums []uint32
	for s := range byStream {
		snums = append(snums, s)
	}
	sort.Slice(snums, func(i, j int) bool { return snums[i] < snums[j] })
	for _, s := range snums {
		if err := f.parseObjStm(s, byStream[s], entries); err != nil {
			return nil, fmt.Errorf("object stream %d: %v", s, err)
		}
	}
	return f, nil
}

func eolLen(b []byte, pos int) int {
	if pos < len(b) && b[pos] == '\n' {
		return 1
	}
	if pos+1 < len(b) && b[pos] == '\r' && b[pos+1] == '\n' {
		return 2
	}
	if pos < len(b) && b[pos] == '\r' {
		return 1
	}
	return 0
}

func (f *File) parseTable(b []byte, pos int) (map[uint32]*entry, error) {
	entries := map[uint32]*entry{}
	pos += 4
	n := eolLen(b, pos)
	if n == 0 {
		return nil, fmt.Errorf("xref keyword not followed by EOL")
	}
	pos += n
	sub := 0
	for {
		if bytes.HasPrefix(b[pos:], []byte("trailer")) {
			break
		}
		// subsection header: start SP count EOL
		l := &lexer{b: b, pos: pos}
		v1, err := l.number()
		if err != nil {
			return nil, fmt.Errorf("subsection header: %v", err)
		}
		if l.pos >= len(b) || b[l.pos] != ' ' {
			return nil, fmt.Errorf("subsection header: expected single space")
		}
		l.pos++
		v2, err := l.number()
		if err != nil {
			return nil, fmt.Errorf("subsection header: %v", err)
		}
		start, ok1 := v1.(Integer)
		count, ok2 := v2.(Integer)
		if !ok1 || !ok2 || start < 0 || count < 0 {
			return nil, fmt.Errorf("subsection header: bad numbers")
		}
		// optional trailing space tolerated by the spec? No: "start count EOL"
		n := eolLen(b, l.pos)
		if n == 0 {
			return nil, fmt.Errorf("subsection header not followed by EOL")
		}
		pos = l.pos + n
		for i := int64(0); i < int64(count); i++ {
			if pos+20 > len(b) {
				return nil, fmt.Errorf("truncated entry")
			}
			line := b[pos : pos+20]
			for k := 0; k < 10; k++ {
				if line[k] < '0' || line[k] > '9' {
					return nil, fmt.Errorf("entry %d: offset field %q", int64(start)+i, line[:10])
				}
			}
			for k := 11; k < 16; k++ {
				if line[k] < '0' || line[k] > '9' {
					return nil, fmt.Errorf("entry %d: generation field %q", int64(start)+i, line[11:16])
				}
			}
			if line[10] != ' ' || line[16] != ' ' {
				return nil, fmt.Errorf("entry %d: missing separators in %q", int64(start)+i, line)
			}
			eol := string(line[18:20])
			if eol != " \n" && eol != "\r\n" && eol != " \r" {
				return nil, fmt.Errorf("entry %d: bad 2-byte EOL %q (entries must be exactly 20 bytes)", int64(start)+i, eol)
			}
			var off, gen int64
			fmt.Sscanf(string(line[:10]), "%d", &off)
			fmt.Sscanf(string(line[11:16]), "%d", &gen)
			num := uint32(int64(start) + i)
			if entries[num] != nil {
				return nil, fmt.Errorf("object %d has two entries", num)
			}
			switch line[17] {
			case 'n':
				entries[num] = &entry{typ: 1, f2: off, f3: gen}
			case 'f':
				entries[num] = &entry{typ: 0, f2: off, f3: gen}
			default:
				return nil, fmt.Errorf("entry %d: type %q", num, line[17])
			}
			pos += 20
		}
		sub++
		if sub > 1<<20 {
			return nil, fmt.Errorf("too many subsections")
		}
	}
	pos += len("trailer")
	l := &lexer{b: b, pos: pos}
	l.skipSpace()
	v, err := l.object(0)
	if err != nil {
		return nil, fmt.Errorf("trailer: %v", err)
	}
	d, ok := v.(Dict)
	if !ok {
		return nil, fmt.Errorf("trailer is not a dictionary")
	}
	f.Trailer = d
	f.XRefEnd = int64(l.pos)
	return entries, nil
}

// indirectHeader parses "N G obj" exactly at pos.
func indirectHeader(b []byte, pos int64) (*lexer, Ref, error) {
	if pos < 0 || pos >= int64(len(b)) {
		return nil, Ref{}, fmt.Errorf("offset out of range")
	}
	if b[pos] < '0' || b[pos] > '9' {
		return nil, Ref{}, fmt.Errorf("offset does not point at an object header (found %q)", b[pos:min(int(pos)+12, len(b))])
	}
	if pos > 0 && isRegular(b[pos-1]) {
		return nil, Ref{}, fmt.Errorf("offset points into the middle of a token")
	}
	l := &lexer{b: b, pos: int(pos)}
	v1, err := l.number()
	if err != nil {
		return nil, Ref{}, err
	}
	l.skipSpace()
	v2, err := l.number()
	if err != nil {
		return nil, Ref{}, err
	}
	l.skipSpace()
	if !l.keyword("obj") {
		return nil, Ref{}, fmt.Errorf("missing obj keyword")
	}
	n, ok1 := v1.(Integer)
	g, ok2 := v2.(Integer)
	if !ok1 || !ok2 || n < 0 || g < 0 || g > 65535 || n > 0xffffffff {
		return nil, Ref{}, fmt.Errorf("bad object header numbers")
	}
	return l, Ref{uint32(n), uint16(g)}, nil
}

func (f *File) parseIndirect(b []byte, pos int64, want Ref, entries map[uint32]*entry) (*Object, error) {
	l, ref, err := indirectHeader(b, pos)
	if err != nil {
		return nil, err
	}
	if ref != want {
		return nil, fmt.Errorf("header says %d %d", ref.Num, ref.Gen)
	}
	v, err := l.objectOrRef(0)
	if err != nil {
		return nil, err
	}
	l.skipSpace()
	if d, isDict := v.(Dict); isDict && l.keyword("stream") {
		// stream keyword must be followed by CRLF or LF
		if l.hasPrefix("\r\n") {
			l.pos += 2
		} else if l.hasPrefix("\n") {
			l.pos++
		} else {
			return nil, fmt.Errorf("stream keyword not followed by CRLF or LF")
		}
		length, err := f.resolveLength(b, d["Length"], entries, 0)
		if err != nil {
			return nil, fmt.Errorf("stream /Length: %v", err)
		}
		start := l.pos
		if length < 0 || start+length > len(b) {
			return nil, fmt.Errorf("stream /Length %d runs past the end of the file", length)
		}
		l.pos = start + length
		n := eolLen(b, l.pos)
		if !(n > 0 && bytes.HasPrefix(b[l.pos+n:], []byte("endstream"))) {
			// the statement (and ISO 32000-2, 7.3.8.1: "shall") wants an
			// end-of-line marker between the data and endstream that is not
			// counted in /Length
			if bytes.HasPrefix(b[l.pos:], []byte("endstream")) {
				return nil, fmt.Errorf("stream /Length %d: no end-of-line marker between the data and endstream at offset %d (the data's own last byte does not count)", length, l.pos)
			}
			return nil, fmt.Errorf("stream /Length %d is wrong: expected EOL+endstream at offset %d, found %q", length, l.pos, b[l.pos:min(l.pos+16, len(b))])
		}
		l.pos += n + len("endstream")
		v = &Stream{Dict: d, Raw: b[start : start+length], Start: int64(start)}
		l.skipSpace()
	}
	if !l.keyword("endobj") {
		return nil, l.errf("missing endobj (found %q)", b[l.pos:min(l.pos+12, len(b))])
	}
	return &Object{Ref: ref, Value: v, Start: pos, End: int64(l.pos)}, nil
}

// resolveLength handles a direct or indirect /Length.
func (f *File) resolveLength(b []byte, v Value, entries map[uint32]*entry, depth int) (int, error) {
	switch x := v.(type) {
	case Integer:
		return int(x), nil
	case Ref:
		if depth > 2 {
			return 0, fmt.Errorf("indirect length chain too long")
		}
		e := entries[x.Num]
		if e == nil || e.typ != 1 || uint16(e.f3) != x.Gen {
			return 0, fmt.Errorf("indirect /Length %d %d R is not an in-use uncompressed object", x.Num, x.Gen)
		}
		l, ref, err := indirectHeader(b, e.f2)
		if err != nil {
			return 0, fmt.Errorf("indirect /Length %d %d R: %v", x.Num, x.Gen, err)
		}
		if ref != x {
			return 0, fmt.Errorf("indirect /Length: header mismatch")
		}
		lv, err := l.objectOrRef(0)
		if err != nil {
			return 0, err
		}
		return f.resolveLength(b, lv, entries, depth+1)
	case nil:
		return 0, fmt.Errorf("missing")
	}
	return 0, fmt.Errorf("has type %T", v)
}

// decodeFlate undoes /FlateDecode with an optional PNG predictor, written
// from the PNG specification (filter types 0..4).
func decodeFlate(raw []byte, parms Dict) ([]byte, error) {
	zr, err := zlib.NewReader(bytes.NewReader(raw))
	if err != nil {
		return nil, err
	}
	data, err := io.ReadAll(zr)
	if err != nil {
		return nil, err
	}
	pred, _ := parms["Predictor"].(Integer)
	if pred <= 1 {
		return data, nil
	}
	if pred < 10 {
		return nil, fmt.Errorf("predictor %d not supported by the validator", pred)
	}
	colors, bpc, cols := 1, 8, 1
	if v, ok := parms["Colors"].(Integer); ok {
		colors = int(v)
	}
	if v, ok := parms["BitsPerComponent"].(Integer); ok {
		bpc = int(v)
	}
	if v, ok := parms["Columns"].(Integer); ok {
		cols = int(v)
	}
	rowLen := (colors*bpc*cols + 7) / 8
	bpp := (colors*bpc + 7) / 8
	if len(data)%(rowLen+1) != 0 {
		return nil, fmt.Errorf("predictor data length %d is not a multiple of row length %d+1", len(data), rowLen)
	}
	prev := make([]byte, rowLen)
	var out []byte
	for pos := 0; pos < len(data); pos += rowLen + 1 {
		ft := data[pos]
		row := append([]byte(nil), data[pos+1:pos+1+rowLen]...)
		for i := range row {
			var a, bb, c int
			if i >= bpp {
				a = int(row[i-bpp])
				c = int(prev[i-bpp])
			}
			bb = int(prev[i])
			switch ft {
			case 0:
			case 1:
				row[i] += byte(a)
			case 2:
				row[i] += byte(bb)
			case 3:
				row[i] += byte((a + bb) / 2)
			case 4:
				p := a + bb - c
				pa, pb, pc := abs(p-a), abs(p-bb), abs(p-c)
				pr := c
				if pa <= pb && pa <= pc {
					pr = a
				} else if pb <= pc {
					pr = bb
				}
				row[i] += byte(pr)
			default:
				return nil, fmt.Errorf("bad PNG filter type %d", ft)
			}
		}
		out = append(out, row...)
		prev = row
	}
	return out, nil
}

func abs(x int) int {
	if x < 0 {
		return -x
	}
	return x
}

// decodeStreamSimple decodes a stream whose filter is absent or FlateDecode.
func decodeStreamSimple(s *Stream) ([]byte, error) {
	switch flt := s.Dict["Filter"].(type) {
	case nil:
		return s.Raw, nil
	case Name:
		if flt != "FlateDecode" {
			return nil, fmt.Errorf("filter /%s not supported by the validator", string(flt))
		}
		parms, _ := s.Dict["DecodeParms"].(Dict)
		return decodeFlate(s.Raw, parms)
	case Array:
		if len(flt) == 0 {
			return s.Raw, nil
		}
		if len(flt) == 1 && flt[0] == Name("FlateDecode") {
			var parms Dict
			if pa, ok := s.Dict["DecodeParms"].(Array); ok && len(pa) == 1 {
				parms, _ = pa[0].(Dict)
			}
			return decodeFlate(s.Raw, parms)
		}
	}
	return nil, fmt.Errorf("filter %v not supported by the validator", s.Dict["Filter"])
}

func (f *File) parseXRefStream(b []byte, pos int) (map[uint32]*entry, error) {
	l, ref, err := indirectHeader(b, int64(pos))
	if err != nil {
		return nil, err
	}
	_ = l
	obj, err := f.parseIndirect(b, int64(pos), ref, map[uint32]*entry{})
	if err != nil {
		return nil, err
	}
	stm, ok := obj.Value.(*Stream)
	if !ok {
		return nil, fmt.Errorf("not a stream")
	}
	d := stm.Dict
	if d["Type"] != Name("XRef") {
		return nil, fmt.Errorf("/Type is %v, not /XRef", d["Type"])
	}
	if _, direct := d["Length"].(Integer); !direct {
		return nil, fmt.Errorf("/Length of a cross-reference stream must be direct")
	}
	size, ok := d["Size"].(Integer)
	if !ok || size < 1 {
		return nil, fmt.Errorf("bad /Size")
	}
	wa, ok := d["W"].(Array)
	if !ok || len(wa) != 3 {
		return nil, fmt.Errorf("bad /W")
	}
	var w [3]int
	for i, x := range wa {
		xi, ok := x.(Integer)
		if !ok || xi < 0 || xi > 8 {
			return nil, fmt.Errorf("bad /W element %v", x)
		}
		w[i] = int(xi)
	}
	index := []int64{0, int64(size)}
	if ia, ok := d["Index"].(Array); ok {
		index = nil
		if len(ia)%2 != 0 {
			return nil, fmt.Errorf("odd /Index")
		}
		for _, x := range ia {
			xi, ok := x.(Integer)
			if !ok || xi < 0 {
				return nil, fmt.Errorf("bad /Index element")
			}
			index = append(index, int64(xi))
		}
	}
	data, err := decodeStreamSimple(stm)
	if err != nil {
		return nil, fmt.Errorf("decoding: %v", err)
	}
	rowLen := w[0] + w[1] + w[2]
	total := int64(0)
	for i := 0; i < len(index); i += 2 {
		total += index[i+1]
	}
	if int64(len(data)) != total*int64(rowLen) {
		return nil, fmt.Errorf("decoded length %d does not match %d entries of %d bytes", len(data), total, rowLen)
	}
	entries := map[uint32]*entry{}
	p := 0
	field := func(n int, def int64) int64 {
		if n == 0 {
			return def
		}
		var v int64
		for k := 0; k < n; k++ {
			v = v<<8 | int64(data[p])
			p++
		}
		return v
	}
	for i := 0; i < len(index); i += 2 {
		for k := int64(0); k < index[i+1]; k++ {
			num := uint32(index[i] + k)
			t := field(w[0], 1)
			f2 := field(w[1], 0)
			f3 := field(w[2], 0)
			if entries[num] != nil {
				return nil, fmt.Errorf("object %d has two entries", num)
			}
			if t < 0 || t > 2 {
				return nil, fmt.Errorf("object %d: entry type %d", num, t)
			}
			entries[num] = &entry{typ: int(t), f2: f2, f3: f3}
		}
	}
	f.Trailer = d
	f.XRefObj = ref
	f.XRefEnd = obj.End
	// Whether the stream lists itself as in use is not checked: the property
	// statement does not require it (the Writer lists it as free).  If it does
	// list itself, the entry must be right.
	if e := entries[ref.Num]; e != nil && e.typ == 1 && e.f2 != int64(pos) {
		return nil, fmt.Errorf("the cross-reference stream's own entry points elsewhere")
	}
	if e := entries[ref.Num]; e != nil && e.typ == 1 {
		delete(entries, ref.Num) // already parsed; do not parse again with the full table
		entries[ref.Num] = &entry{typ: 1, f2: int64(pos), f3: int64(ref.Gen)}
	}
	return entries, nil
}

func (f *File) parseObjStm(snum uint32, members []uint32, entries map[uint32]*entry) error {
	so := f.Objects[Ref{snum, 0}]
	if so == nil {
		return fmt.Errorf("not an in-use generation-0 object")
	}
	stm, ok := so.Value.(*Stream)
	if !ok {
		return fmt.Errorf("not a stream")
	}
	if stm.Dict["Type"] != Name("ObjStm") {
		return fmt.Errorf("/Type is %v", stm.Dict["Type"])
	}
	n, ok1 := stm.Dict["N"].(Integer)
	first, ok2 := stm.Dict["First"].(Integer)
	if !ok1 || !ok2 || n < 0 || first < 0 {
		return fmt.Errorf("bad /N or /First")
	}
	data, err := decodeStreamSimple(stm)
	if err != nil {
		return fmt.Errorf("decoding: %v", err)
	}
	if int(first) > len(data) {
		return fmt.Errorf("/First %d beyond the data (%d bytes)", first, len(data))
	}
	hl := &lexer{b: data[:first]}
	type pair struct{ num, off int64 }
	var pairs []pair
	for i := int64(0); i < int64(n); i++ {
		hl.skipSpace()
		a, err := hl.number()
		if err != nil {
			return fmt.Errorf("offset table: %v", err)
		}
		hl.skipSpace()
		b2, err := hl.number()
		if err != nil {
			return fmt.Errorf("offset table: %v", err)
		}
		ai, ok1 := a.(Integer)
		bi, ok2 := b2.(Integer)
		if !ok1 || !ok2 || ai < 0 || bi < 0 {
			return fmt.Errorf("offset table: bad pair")
		}
		if len(pairs) > 0 && int64(bi) <= pairs[len(pairs)-1].off && !(int64(bi) == pairs[len(pairs)-1].off) {
			return fmt.Errorf("offset table: offsets not ascending")
		}
		pairs = append(pairs, pair{int64(ai), int64(bi)})
	}
	hl.skipSpace()
	if hl.pos != len(hl.b) {
		return fmt.Errorf("offset table: /N=%d pairs end at %d but /First is %d", n, hl.pos, first)
	}
	idxOf := map[uint32]int{}
	for i, p := range pairs {
		if _, dup := idxOf[uint32(p.num)]; dup {
			return fmt.Errorf("object %d listed twice", p.num)
		}
		idxOf[uint32(p.num)] = i
	}
	for _, m := range members {
		e := entries[m]
		i, ok := idxOf[m]
		if !ok {
			return fmt.Errorf("object %d is not listed in the offset table", m)
		}
		if int64(i) != e.f3 {
			return fmt.Errorf("object %d: xref says index %d, offset table says %d", m, e.f3, i)
		}
		start := int(first) + int(pairs[i].off)
		end := len(data)
		if i+1 < len(pairs) {
			end = int(first) + int(pairs[i+1].off)
		}
		if start > end || end > len(data) {
			return fmt.Errorf("object %d: offsets out of range", m)
		}
		ol := &lexer{b: data[:end], pos: start}
		v, err := ol.objectOrRef(0)
		if err != nil {
			return fmt.Errorf("object %d: %v", m, err)
		}
		ol.skipSpace()
		if ol.pos != end {
			return fmt.Errorf("object %d: trailing data %q", m, data[ol.pos:end])
		}
		if _, isRef := v.(Ref); isRef {
			return fmt.Errorf("object %d: a bare reference inside an object stream", m)
		}
		f.Objects[Ref{m, 0}] = &Object{Ref: Ref{m, 0}, Value: v, InObjStm: snum, ObjStmIdx: i}
	}
	if len(members) != len(pairs) {
		return fmt.Errorf("/N=%d members listed but %d cross-reference entries point into the stream", len(pairs), len(members))
	}
	return nil
}
