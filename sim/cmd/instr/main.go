// Command instr derives scheduler yield points from the working tree: it
// rewrites the synchronisation operations in selected packages of /repo
// (mutex Lock/Unlock/RLock/RUnlock, channel receive, close, sync.Pool) into
// calls of helper functions, writes the rewritten copies to an output
// directory and emits a `go build -overlay` JSON file.  Nothing in /repo is
// modified.  With no simulation active the helpers fall through to the real
// primitives.
package main

import (
	"bytes"
	"encoding/json"
	"flag"
	"fmt"
	"go/ast"
	"go/format"
	"go/parser"
	"go/token"
	"os"
	"path/filepath"
	"strings"
)

// packages (relative to the repository root) whose files are instrumented
var pkgDirs = []string{".", "font/cmap", "font/mapping"}

func main() {
	repo := flag.String("repo", "/repo", "repository root")
	out := flag.String("out", "", "output directory for rewritten files")
	jsonPath := flag.String("json", "", "overlay file to write")
	mode := flag.String("mode", "sched", "sched: scheduler yield points; work: work counter (simulated time)")
	dirs := flag.String("dirs", "internal/filter", "work mode: comma-separated directories (relative to the repository root, searched recursively) that receive the work counter")
	flag.Parse()
	workDirs = strings.Split(*dirs, ",")
	if *mode == "work" {
		if *out == "" || *jsonPath == "" {
			fmt.Fprintln(os.Stderr, "usage: instr -mode work -repo DIR -out DIR -json FILE")
			os.Exit(2)
		}
		workMode(*repo, *out, *jsonPath)
		return
	}
	if *out == "" || *jsonPath == "" {
		fmt.Fprintln(os.Stderr, "usage: instr -repo DIR -out DIR -json FILE")
		os.Exit(2)
	}
	os.RemoveAll(*out)
	overlay := map[string]string{}
	total := 0
	for _, dir := range pkgDirs {
		abs := filepath.Join(*repo, dir)
		ents, err := os.ReadDir(abs)
		if err != nil {
			fmt.Fprintln(os.Stderr, "instr:", err)
			os.Exit(2)
		}
		pkgName := ""
		touched := 0
		for _, ent := range ents {
			name := ent.Name()
			if ent.IsDir() || !strings.HasSuffix(name, ".go") || strings.HasSuffix(name, "_test.go") {
				continue
			}
			src := filepath.Join(abs, name)
			data, err := os.ReadFile(src)
			if err != nil {
				fmt.Fprintln(os.Stderr, "instr:", err)
				os.Exit(2)
			}
			fset := token.NewFileSet()
			f, err := parser.ParseFile(fset, src, data, parser.ParseComments)
			if err != nil {
				fmt.Fprintln(os.Stderr, "instr: cannot parse", src, err)
				os.Exit(2)
			}
			if pkgName == "" {
				pkgName = f.Name.Name
			}
			// cheap pre-filter
			if !bytes.Contains(data, []byte("Lock()")) && !bytes.Contains(data, []byte("<-")) && !bytes.Contains(data, []byte("close(")) && !bytes.Contains(data, []byte("sync.Pool")) {
				continue
			}
			n := rewrite(fset, f, filepath.Join(dir, name))
			if n == 0 {
				continue
			}
			var buf bytes.Buffer
			if err := format.Node(&buf, fset, f); err != nil {
				fmt.Fprintln(os.Stderr, "instr: cannot print", src, err)
				os.Exit(2)
			}
			for _, imp := range f.Imports {
				if imp.Path.Value == `"sync"` && imp.Name == nil {
					// keep the import used even if every sync.X was rewritten
					buf.WriteString("\nvar _ sync.Locker\n")
				}
			}
			dst := filepath.Join(*out, dir, name)
			os.MkdirAll(filepath.Dir(dst), 0o755)
			if err := os.WriteFile(dst, buf.Bytes(), 0o644); err != nil {
				fmt.Fprintln(os.Stderr, "instr:", err)
				os.Exit(2)
			}
			overlay[src] = dst
			touched++
			total += n
			fmt.Printf("instr: %s: %d sites\n", filepath.Join(dir, name), n)
		}
		// every listed package gets the helper file (the harness refers to the
		// hook variables of all three)
		helper := strings.ReplaceAll(helperSrc, "PKGNAME", pkgName)
		dst := filepath.Join(*out, dir, "zz_verif_sim.go")
		os.MkdirAll(filepath.Dir(dst), 0o755)
		if err := os.WriteFile(dst, []byte(helper), 0o644); err != nil {
			fmt.Fprintln(os.Stderr, "instr:", err)
			os.Exit(2)
		}
		overlay[filepath.Join(abs, "zz_verif_sim.go")] = dst
		_ = touched
	}
	b, _ := json.MarshalIndent(map[string]any{"Replace": overlay}, "", " ")
	if err := os.WriteFile(*jsonPath, b, 0o644); err != nil {
		fmt.Fprintln(os.Stderr, "instr:", err)
		os.Exit(2)
	}
	fmt.Printf("instr: %d synchronisation sites instrumented\n", total)
}

func site(fset *token.FileSet, rel string, pos token.Pos) *ast.BasicLit {
	p := fset.Position(pos)
	return &ast.BasicLit{Kind: token.STRING, Value: fmt.Sprintf("%q", fmt.Sprintf("%s:%d", rel, p.Line))}
}

// rewrite instruments one file and returns the number of rewritten sites.
func rewrite(fset *token.FileSet, f *ast.File, rel string) int {
	n := 0
	// receives that appear as the communication of a select case, or in a
	// two-value assignment, cannot be turned into calls
	skip := map[ast.Node]bool{}
	ast.Inspect(f, func(nd ast.Node) bool {
		switch x := nd.(type) {
		case *ast.CommClause:
			if x.Comm != nil {
				ast.Inspect(x.Comm, func(m ast.Node) bool {
					if u, ok := m.(*ast.UnaryExpr); ok && u.Op == token.ARROW {
						skip[u] = true
					}
					return true
				})
			}
		case *ast.AssignStmt:
			if len(x.Lhs) == 2 && len(x.Rhs) == 1 {
				if u, ok := x.Rhs[0].(*ast.UnaryExpr); ok && u.Op == token.ARROW {
					skip[u] = true
				}
			}
		case *ast.ValueSpec:
			if len(x.Names) == 2 && len(x.Values) == 1 {
				if u, ok := x.Values[0].(*ast.UnaryExpr); ok && u.Op == token.ARROW {
					skip[u] = true
				}
			}
		}
		return true
	})

	var visit func(nd ast.Node) ast.Node
	replaceExpr := func(e ast.Expr) ast.Expr {
		if e == nil {
			return nil
		}
		if r := visit(e); r != nil {
			return r.(ast.Expr)
		}
		return e
	}
	visit = func(nd ast.Node) ast.Node {
		switch x := nd.(type) {
		case *ast.CallExpr:
			if sel, ok := x.Fun.(*ast.SelectorExpr); ok && len(x.Args) == 0 {
				var helper string
				switch sel.Sel.Name {
				case "Lock":
					helper = "simLock"
				case "Unlock":
					helper = "simUnlock"
				case "RLock":
					helper = "simRLock"
				case "RUnlock":
					helper = "simRUnlock"
				}
				if helper != "" {
					n++
					return &ast.CallExpr{
						Fun:  ast.NewIdent(helper),
						Args: []ast.Expr{&ast.UnaryExpr{Op: token.AND, X: sel.X}, site(fset, rel, x.Pos())},
					}
				}
			}
			if id, ok := x.Fun.(*ast.Ident); ok && id.Name == "close" && len(x.Args) == 1 {
				n++
				return &ast.CallExpr{Fun: ast.NewIdent("simClose"), Args: []ast.Expr{x.Args[0], site(fset, rel, x.Pos())}}
			}
		case *ast.UnaryExpr:
			if x.Op == token.ARROW && !skip[x] {
				n++
				return &ast.CallExpr{Fun: ast.NewIdent("simRecv"), Args: []ast.Expr{x.X, site(fset, rel, x.Pos())}}
			}
		case *ast.SelectorExpr:
			if id, ok := x.X.(*ast.Ident); ok && id.Name == "sync" && x.Sel.Name == "Pool" {
				n++
				return ast.NewIdent("simPool")
			}
		}
		return nil
	}
	// generic in-place replacement over the fields that can hold expressions
	ast.Inspect(f, func(nd ast.Node) bool {
		switch x := nd.(type) {
		case *ast.ExprStmt:
			x.X = replaceExpr(x.X)
		case *ast.DeferStmt:
			if r := visit(x.Call); r != nil {
				x.Call = r.(*ast.CallExpr)
			}
		case *ast.GoStmt:
			if r := visit(x.Call); r != nil {
				x.Call = r.(*ast.CallExpr)
			}
		case *ast.AssignStmt:
			for i := range x.Rhs {
				x.Rhs[i] = replaceExpr(x.Rhs[i])
			}
		case *ast.ValueSpec:
			for i := range x.Values {
				x.Values[i] = replaceExpr(x.Values[i])
			}
			x.Type = replaceExpr(x.Type)
		case *ast.Field:
			x.Type = replaceExpr(x.Type)
		case *ast.CompositeLit:
			x.Type = replaceExpr(x.Type)
			for i := range x.Elts {
				x.Elts[i] = replaceExpr(x.Elts[i])
			}
		case *ast.KeyValueExpr:
			x.Value = replaceExpr(x.Value)
		case *ast.UnaryExpr:
			x.X = replaceExpr(x.X)
		case *ast.StarExpr:
			x.X = replaceExpr(x.X)
		case *ast.ReturnStmt:
			for i := range x.Results {
				x.Results[i] = replaceExpr(x.Results[i])
			}
		case *ast.CallExpr:
			for i := range x.Args {
				x.Args[i] = replaceExpr(x.Args[i])
			}
		case *ast.BinaryExpr:
			x.X = replaceExpr(x.X)
			x.Y = replaceExpr(x.Y)
		case *ast.ParenExpr:
			x.X = replaceExpr(x.X)
		case *ast.IfStmt:
			x.Cond = replaceExpr(x.Cond)
		case *ast.TypeAssertExpr:
			x.Type = replaceExpr(x.Type)
		case *ast.SendStmt:
			x.Value = replaceExpr(x.Value)
		}
		return true
	})
	return n
}

const helperSrc = `// Code generated by /verif/sim/cmd/instr; added through a build overlay only.

package PKGNAME

import "sync"

// SimHooks lets a deterministic scheduler own the synchronisation operations
// of this package.  All fields may be nil.
type SimHooks struct {
	// BeforeLock is called before a mutex is acquired (write=false for RLock).
	// It returns once the scheduler's model grants the mutex.
	BeforeLock func(m any, write bool, site string)
	// AfterUnlock is called after a mutex was released.
	AfterUnlock func(m any, write bool, site string)
	// BeforeRecv is called before a channel receive; it returns once the
	// receive can proceed without blocking (the channel was closed).
	BeforeRecv func(ch any, site string)
	// BeforeClose and AfterClose bracket close(ch).
	BeforeClose func(ch any, site string)
	AfterClose  func(ch any, site string)
	// PoolGet and PoolPut replace sync.Pool while a simulation is active.
	PoolGet func(p any) (x any, ok bool)
	PoolPut func(p any, x any)
}

// SimActive is nil unless a simulation is running.
var SimActive *SimHooks

func simRealLock(m any, write bool) {
	switch x := m.(type) {
	case *sync.Mutex:
		x.Lock()
	case *sync.RWMutex:
		if write {
			x.Lock()
		} else {
			x.RLock()
		}
	case **sync.Mutex:
		(*x).Lock()
	case **sync.RWMutex:
		if write {
			(*x).Lock()
		} else {
			(*x).RLock()
		}
	case sync.Locker:
		x.Lock()
	default:
		panic("instr: Lock on unsupported type")
	}
}

func simRealUnlock(m any, write bool) {
	switch x := m.(type) {
	case *sync.Mutex:
		x.Unlock()
	case *sync.RWMutex:
		if write {
			x.Unlock()
		} else {
			x.RUnlock()
		}
	case **sync.Mutex:
		(*x).Unlock()
	case **sync.RWMutex:
		if write {
			(*x).Unlock()
		} else {
			(*x).RUnlock()
		}
	case sync.Locker:
		x.Unlock()
	default:
		panic("instr: Unlock on unsupported type")
	}
}

func simKey(m any) any {
	switch x := m.(type) {
	case **sync.Mutex:
		return *x
	case **sync.RWMutex:
		return *x
	}
	return m
}

func simLock(m any, site string) {
	if h := SimActive; h != nil && h.BeforeLock != nil {
		h.BeforeLock(simKey(m), true, site)
	}
	simRealLock(m, true)
}

func simRLock(m any, site string) {
	if h := SimActive; h != nil && h.BeforeLock != nil {
		h.BeforeLock(simKey(m), false, site)
	}
	simRealLock(m, false)
}

func simUnlock(m any, site string) {
	simRealUnlock(m, true)
	if h := SimActive; h != nil && h.AfterUnlock != nil {
		h.AfterUnlock(simKey(m), true, site)
	}
}

func simRUnlock(m any, site string) {
	simRealUnlock(m, false)
	if h := SimActive; h != nil && h.AfterUnlock != nil {
		h.AfterUnlock(simKey(m), false, site)
	}
}

func simRecv[T any](ch <-chan T, site string) T {
	if h := SimActive; h != nil && h.BeforeRecv != nil {
		h.BeforeRecv(ch, site)
	}
	return <-ch
}

func simClose[T any](ch chan T, site string) {
	h := SimActive
	if h != nil && h.BeforeClose != nil {
		h.BeforeClose((<-chan T)(ch), site)
	}
	close(ch)
	if h != nil && h.AfterClose != nil {
		h.AfterClose((<-chan T)(ch), site)
	}
}

// simPool has the method set of sync.Pool.
type simPool struct {
	New  func() any
	once sync.Once
	real sync.Pool
}

func (p *simPool) Get() any {
	if h := SimActive; h != nil && h.PoolGet != nil {
		if x, ok := h.PoolGet(p); ok {
			return x
		}
		if p.New != nil {
			return p.New()
		}
		return nil
	}
	p.once.Do(func() { p.real.New = p.New })
	return p.real.Get()
}

func (p *simPool) Put(x any) {
	if h := SimActive; h != nil && h.PoolPut != nil {
		h.PoolPut(p, x)
		return
	}
	p.once.Do(func() { p.real.New = p.New })
	p.real.Put(x)
}
`

// workDirs are the packages (relative to the repository root, searched
// recursively) that receive the work counter: the stream decoders.
var workDirs []string

// workMode prepends a call of zzTick() to every function body and every loop
// body of the decoder packages.  The tick count is the simulated time a decode
// takes: deterministic, independent of machine load, and it is read by the
// harness through expvar (internal packages cannot be imported from outside).
func workMode(repo, out, jsonPath string) {
	os.RemoveAll(out)
	overlay := map[string]string{}
	total := 0
	for _, top := range workDirs {
		filepath.Walk(filepath.Join(repo, top), func(path string, info os.FileInfo, err error) error {
			if err != nil {
				fmt.Fprintln(os.Stderr, "instr:", err)
				os.Exit(2)
			}
			if !info.IsDir() {
				return nil
			}
			if b := filepath.Base(path); b == "testdata" || strings.HasPrefix(b, ".") {
				return filepath.SkipDir
			}
			ents, _ := os.ReadDir(path)
			pkgName := ""
			for _, ent := range ents {
				name := ent.Name()
				if ent.IsDir() || !strings.HasSuffix(name, ".go") || strings.HasSuffix(name, "_test.go") {
					continue
				}
				src := filepath.Join(path, name)
				data, err := os.ReadFile(src)
				if err != nil {
					fmt.Fprintln(os.Stderr, "instr:", err)
					os.Exit(2)
				}
				fset := token.NewFileSet()
				f, err := parser.ParseFile(fset, src, data, parser.ParseComments)
				if err != nil {
					fmt.Fprintln(os.Stderr, "instr: cannot parse", src, err)
					os.Exit(2)
				}
				if f.Name.Name == "main" || bytes.Contains(data, []byte("//go:build ignore")) {
					continue
				}
				pkgName = f.Name.Name
				n := 0
				tick := func(b *ast.BlockStmt) {
					if b == nil {
						return
					}
					call := &ast.ExprStmt{X: &ast.CallExpr{Fun: ast.NewIdent("zzTick")}}
					b.List = append([]ast.Stmt{call}, b.List...)
					n++
				}
				ast.Inspect(f, func(nd ast.Node) bool {
					switch x := nd.(type) {
					case *ast.FuncDecl:
						tick(x.Body)
					case *ast.FuncLit:
						tick(x.Body)
					case *ast.ForStmt:
						tick(x.Body)
					case *ast.RangeStmt:
						tick(x.Body)
					}
					return true
				})
				if n == 0 {
					continue
				}
				var buf bytes.Buffer
				if err := format.Node(&buf, fset, f); err != nil {
					fmt.Fprintln(os.Stderr, "instr: cannot print", src, err)
					os.Exit(2)
				}
				rel, _ := filepath.Rel(repo, src)
				dst := filepath.Join(out, rel)
				os.MkdirAll(filepath.Dir(dst), 0o755)
				if err := os.WriteFile(dst, buf.Bytes(), 0o644); err != nil {
					fmt.Fprintln(os.Stderr, "instr:", err)
					os.Exit(2)
				}
				overlay[src] = dst
				total += n
			}
			if pkgName != "" {
				rel, _ := filepath.Rel(repo, path)
				dst := filepath.Join(out, rel, "zz_verif_work.go")
				os.MkdirAll(filepath.Dir(dst), 0o755)
				if err := os.WriteFile(dst, []byte(strings.ReplaceAll(strings.ReplaceAll(workHelperSrc, "PKGNAME", pkgName), "PKGDIR", rel)), 0o644); err != nil {
					fmt.Fprintln(os.Stderr, "instr:", err)
					os.Exit(2)
				}
				overlay[filepath.Join(path, "zz_verif_work.go")] = dst
			}
			return nil
		})
	}
	b, _ := json.MarshalIndent(map[string]any{"Replace": overlay}, "", " ")
	if err := os.WriteFile(jsonPath, b, 0o644); err != nil {
		fmt.Fprintln(os.Stderr, "instr:", err)
		os.Exit(2)
	}
	fmt.Printf("instr: %d work-counter sites in %d files\n", total, len(overlay))
}

const workHelperSrc = `// Code generated by /verif/sim/cmd/instr; added through a build overlay only.

package PKGNAME

import "expvar"

// zzN is incremented without synchronisation: a decode runs on one goroutine
// at a time (the JPEG producer and its consumer alternate through a pipe), and
// the harness reads the counter after the decode has finished.
var zzN int64

func zzTick() { zzN++ }

func init() {
	expvar.Publish("verif.work.PKGDIR", expvar.Func(func() any { return zzN }))
}
`
