// Command check is the driver: it rebuilds the harness against /repo's working
// tree, runs the seeded workers, confirms and reports violations, and writes
// the evidence file.
//
//	check -prop C02 -tier quick|thorough     run a check
//	check -replay FILE                        re-execute a replay file
//
// Exit status: 0 property held on everything explored (known findings are
// printed as KNOWN-FINDING lines), 1 violation (a VIOLATION line is printed),
// 2 the check could not be evaluated (build trouble, worker crash outside an
// oracle, unreproducible result).
package main

import (
	"encoding/json"
	"flag"
	"fmt"
	"os"
	"os/exec"
	"path/filepath"
	"runtime"
	"sort"
	"strconv"
	"strings"
	"sync"
	"time"

	"verif/sim/core"
)

var root = "/verif"

type propInfo struct {
	Level       string
	Rule        string
	Assumptions []string
	Real, Stub  []string
	Quick       core.Budget
	Thorough    core.Budget
	WantProbes  []string
}

type known struct {
	Property string            `json:"property"`
	ID       string            `json:"id"`
	Status   string            `json:"status"`
	Match    map[string]string `json:"match"`
	What     string            `json:"what"`
	Commit   string            `json:"commit,omitempty"`
}

// overlayProps lists the properties whose harness is built with the
// instrumentation overlay (scheduler yield points at synchronisation sites).
var overlayProps = map[string]string{"C18": "sched", "C08": "work:internal/filter", "C05": "work:."}

// raceProps lists the properties with a race sub-check (package racecheck).
var raceProps = map[string]bool{"C18": true}

// racePhase builds the race binary against /repo (no overlay) and runs it on
// all workers for the given number of seconds.  A report of the race detector
// is a violation; it is identified by the seed and run index, and replayed by
// re-running that run (a race is a property of the real scheduler, so the
// replay is not schedule-exact).
func racePhase(prop, tier string, seed uint64, workers, secs int, ks []known) ([]string, map[string]any) {
	dir := filepath.Join(root, ".build", prop)
	bin := filepath.Join(dir, "race.test")
	cmd := exec.Command("go1.26.8", append(append([]string{"test", "-race", "-c", "-o", bin}, modfileArgs()...), "./racecheck")...)
	cmd.Dir = filepath.Join(root, "sim")
	env := os.Environ()
	env = append(env, "GOFLAGS=-mod=mod", "GOPROXY=off", "GOTOOLCHAIN=local", "GOSUMDB=off")
	cmd.Env = env
	if out, err := cmd.CombinedOutput(); err != nil {
		fatal2("building the race sub-check failed (exit 2, not a violation): %v\n%s", err, out)
	}
	type res struct {
		code   int
		output string
		sum    map[string]any
	}
	results := make([]res, workers)
	var wg sync.WaitGroup
	work := filepath.Join(dir, "racework")
	os.RemoveAll(work)
	os.MkdirAll(work, 0o755)
	for k := 0; k < workers; k++ {
		wg.Add(1)
		go func(k int) {
			defer wg.Done()
			out := filepath.Join(work, fmt.Sprintf("r%d.json", k))
			c := exec.Command(bin, "-test.run", "^TestRaceWorker$", "-test.timeout", "0")
			c.Env = append(os.Environ(), "VSIM_OUT="+out, "VSIM_SEED="+fmt.Sprint(seed), "VSIM_WORKER="+fmt.Sprint(k), "VSIM_WORKERS="+fmt.Sprint(workers), "VSIM_SECS="+fmt.Sprint(secs), "GORACE=halt_on_error=1")
			var sb strings.Builder
			c.Stdout, c.Stderr = &sb, &sb
			err := c.Run()
			r := res{output: sb.String()}
			if err != nil {
				r.code = 1
			}
			if b, e2 := os.ReadFile(out); e2 == nil {
				json.Unmarshal(b, &r.sum)
			}
			if b, e2 := os.ReadFile(out + ".progress"); e2 == nil && r.sum == nil {
				r.sum = map[string]any{"last_run": strings.TrimSpace(string(b))}
			}
			results[k] = r
		}(k)
	}
	wg.Wait()
	runs, ops := 0.0, 0.0
	var lines []string
	reported := map[string]bool{}
	for k, r := range results {
		if r.sum != nil {
			if v, ok := r.sum["runs"].(float64); ok {
				runs += v
			}
			if v, ok := r.sum["ops"].(float64); ok {
				ops += v
			}
		}
		if r.code == 0 {
			continue
		}
		class := "race-subcheck-failure"
		frame := "?"
		if strings.Contains(r.output, "DATA RACE") {
			class = "data-race"
			for _, l := range strings.Split(r.output, "\n") {
				l = strings.TrimSpace(l)
				if strings.HasPrefix(l, "seehuhn.de/go/") {
					if i := strings.LastIndex(l, "("); i > 0 {
						l = l[:i]
					}
					frame = l
					break
				}
			}
		}
		v := core.Violation{Class: class, Attrs: map[string]string{"frame": frame}, Msg: tail(r.output, 6000)}
		if reported[v.Key()] {
			continue
		}
		reported[v.Key()] = true
		if matchKnown(ks, prop, &v) != nil {
			continue
		}
		rf := &core.ReplayFile{Property: prop, Tier: tier, Seed: seed, Run: k, Harness: core.HarnessVersion, Violation: v,
			Comment: fmt.Sprintf("race sub-check, worker %d of %d, last run %v; re-run with: VSIM_OUT=/tmp/o VSIM_SEED=%d VSIM_WORKER=%d VSIM_WORKERS=%d VSIM_SECS=%d %s -test.run TestRaceWorker", k, workers, r.sum["last_run"], seed, k, workers, secs, bin)}
		path := writeReplay(rf, class)
		fmt.Printf("violation class=%s frame=%s (race sub-check, worker %d)\n", class, frame, k)
		lines = append(lines, fmt.Sprintf("VIOLATION property=%s replay=%s", prop, path))
	}
	info := map[string]any{"runs": int(runs), "operations": int(ops), "seconds": secs, "workers": workers,
		"note": "uninstrumented library, real goroutines, go test -race; a detector report is a true race but is reproduced by re-running the seed, not by a schedule"}
	return lines, info
}

func describe(bin, prop string) *propInfo {
	out := filepath.Join(filepath.Dir(bin), "describe.json")
	code, output := runWorker(bin, []string{"VSIM_OUT=" + out, "VSIM_DESCRIBE=" + prop}, time.Minute)
	b, err := os.ReadFile(out)
	if err != nil {
		fatal2("harness cannot describe %s (exit %d): %s", prop, code, tail(output, 2000))
	}
	var pi propInfo
	if err := json.Unmarshal(b, &pi); err != nil {
		fatal2("describe: %v", err)
	}
	return &pi
}

func fatal2(format string, args ...any) {
	fmt.Fprintf(os.Stderr, "check: "+format+"\n", args...)
	os.Exit(2)
}

func goEnv() []string {
	env := os.Environ()
	env = append(env, "GOFLAGS=-mod=mod", "GOPROXY=off", "GOTOOLCHAIN=local", "GOSUMDB=off", "CGO_ENABLED=0")
	return env
}

// repoDir is the tree under test: /repo, or $VERIF_REPO for background sweeps
// on a snapshot (the registered checks always use /repo).
func repoDir() string {
	if r := os.Getenv("VERIF_REPO"); r != "" {
		return r
	}
	return "/repo"
}

// modfileArgs returns -modfile arguments if the tree under test is not /repo.
func modfileArgs() []string {
	if repoDir() == "/repo" {
		return nil
	}
	src, err := os.ReadFile(filepath.Join(root, "sim", "go.mod"))
	if err != nil {
		fatal2("%v", err)
	}
	alt := filepath.Join(root, ".build", "go.alt.mod")
	os.MkdirAll(filepath.Dir(alt), 0o755)
	os.WriteFile(alt, []byte(strings.ReplaceAll(string(src), "=> /repo", "=> "+repoDir())), 0o644)
	if sum, err := os.ReadFile(filepath.Join(root, "sim", "go.sum")); err == nil {
		os.WriteFile(filepath.Join(root, ".build", "go.alt.sum"), sum, 0o644)
	}
	return []string{"-modfile=" + alt}
}

func build(prop string, overlay string) string {
	dir := filepath.Join(root, ".build", prop)
	os.MkdirAll(dir, 0o755)
	bin := filepath.Join(dir, "sim.test")
	args := append([]string{"test", "-c", "-o", bin}, modfileArgs()...)
	if overlay != "" {
		ov := filepath.Join(dir, "overlay.json")
		mode, dirs, _ := strings.Cut(overlay, ":")
		iargs := []string{"-mode", mode, "-repo", repoDir(), "-out", filepath.Join(dir, "overlay"), "-json", ov}
		if dirs != "" {
			iargs = append(iargs, "-dirs", dirs)
		}
		cmd := exec.Command(filepath.Join(root, "bin", "instr"), iargs...)
		cmd.Stderr = os.Stderr
		cmd.Stdout = os.Stderr
		if err := cmd.Run(); err != nil {
			fatal2("instrumentation failed: %v", err)
		}
		args = append(args, "-overlay", ov)
		if mode == "sched" {
			args = append(args, "-tags", "simsched")
		}
	}
	args = append(args, "./harness")
	cmd := exec.Command("go1.26.8", args...)
	cmd.Dir = filepath.Join(root, "sim")
	cmd.Env = goEnv()
	out, err := cmd.CombinedOutput()
	if err != nil {
		fatal2("building the harness against /repo failed (exit 2, not a violation): %v\n%s", err, out)
	}
	return bin
}

func runWorker(bin string, env []string, timeout time.Duration) (exit int, output string) {
	cmd := exec.Command(bin, "-test.run", "^TestWorker$", "-test.timeout", "0", "-test.cpu", "1")
	cmd.Env = append(os.Environ(), env...)
	cmd.Dir = filepath.Dir(bin)
	var sb strings.Builder
	cmd.Stdout = &sb
	cmd.Stderr = &sb
	if err := cmd.Start(); err != nil {
		return -1, err.Error()
	}
	done := make(chan error, 1)
	go func() { done <- cmd.Wait() }()
	select {
	case err := <-done:
		if err != nil {
			if ee, ok := err.(*exec.ExitError); ok {
				return ee.ExitCode(), sb.String()
			}
			return -1, sb.String() + err.Error()
		}
		return 0, sb.String()
	case <-time.After(timeout):
		cmd.Process.Kill()
		<-done
		return -2, sb.String() + "\n[killed by driver watchdog]"
	}
}

func loadKnown() []known {
	b, err := os.ReadFile(filepath.Join(root, "known_findings.json"))
	if err != nil {
		return nil
	}
	var f struct {
		Findings []known `json:"findings"`
	}
	if err := json.Unmarshal(b, &f); err != nil {
		fatal2("known_findings.json: %v", err)
	}
	return f.Findings
}

func matchKnown(ks []known, prop string, v *core.Violation) *known {
	for i := range ks {
		k := &ks[i]
		if k.Property != prop || k.Status != "known" {
			continue
		}
		ok := true
		for mk, mv := range k.Match {
			if mk == "class" {
				if v.Class != mv {
					ok = false
				}
			} else if v.Attrs[mk] != mv {
				ok = false
			}
		}
		if ok {
			return k
		}
	}
	return nil
}

func replayOnce(bin, file string, timeout time.Duration) (*core.ReplayResult, string) {
	out := file + ".out"
	defer os.Remove(out)
	code, output := runWorker(bin, []string{"VSIM_OUT=" + out, "VSIM_REPLAY=" + file}, timeout)
	b, err := os.ReadFile(out)
	if err != nil {
		return nil, fmt.Sprintf("exit %d: %s", code, tail(output, 4000))
	}
	var rr core.ReplayResult
	if err := json.Unmarshal(b, &rr); err != nil {
		return nil, err.Error()
	}
	return &rr, ""
}

func tail(s string, n int) string {
	if len(s) > n {
		return "..." + s[len(s)-n:]
	}
	return s
}

func main() {
	prop := flag.String("prop", "", "property id")
	tier := flag.String("tier", "quick", "quick|thorough")
	replay := flag.String("replay", "", "replay file")
	workers := flag.Int("workers", 0, "worker processes (default: NumCPU)")
	runs := flag.Int("runs", 0, "override total runs")
	secs := flag.Int("secs", 0, "override per-worker seconds")
	rootFlag := flag.String("root", "", "verif root (default /verif or $VERIF_ROOT)")
	selftest := flag.String("selftest", "", "determinism: run the same seeds in several fresh processes at GOMAXPROCS 1/4/16 and diff the event logs")
	flag.Parse()
	// the verif root is where this binary lives (<root>/bin/check), so that a
	// snapshot of /verif works on its own evidence and build directories
	if exe, err := os.Executable(); err == nil {
		if d := filepath.Dir(filepath.Dir(exe)); filepath.Base(filepath.Dir(exe)) == "bin" {
			root = d
		}
	}
	if r := os.Getenv("VERIF_ROOT"); r != "" {
		root = r
	}
	if *rootFlag != "" {
		root = *rootFlag
	}
	if t := os.Getenv("VERIF_TIER"); t != "" && !isFlagSet("tier") {
		*tier = t
	}
	seed := uint64(1)
	if s := os.Getenv("VERIF_SEED"); s != "" {
		if v, err := strconv.ParseUint(s, 10, 64); err == nil {
			seed = v
		} else if v, err := strconv.ParseInt(s, 10, 64); err == nil {
			seed = uint64(v)
		}
	}
	if *workers == 0 {
		*workers = runtime.NumCPU()
	}

	if *replay != "" {
		doReplay(*replay)
		return
	}
	if *prop == "" {
		fatal2("need -prop")
	}
	if *selftest == "determinism" {
		doSelftest(*prop, *tier, seed, *runs)
		return
	}
	start := time.Now()
	bin := build(*prop, overlayProps[*prop])
	info := describe(bin, *prop)
	buildS := time.Since(start).Seconds()

	budget := info.Quick
	if *tier == "thorough" {
		budget = info.Thorough
	}
	if *runs > 0 {
		budget.Runs = *runs
	}
	if *secs > 0 {
		budget.Secs = *secs
	}
	shrinkS := 15
	if *tier == "thorough" {
		shrinkS = 120
	}

	work := filepath.Join(root, ".build", *prop, "work")
	os.RemoveAll(work)
	os.MkdirAll(work, 0o755)

	// run the workers
	type wres struct {
		sum    *core.Summary
		exit   int
		output string
		hang   map[string]any
	}
	results := make([]wres, *workers)
	var wg sync.WaitGroup
	hard := time.Duration(budget.Secs)*time.Second + 15*time.Minute
	for k := 0; k < *workers; k++ {
		wg.Add(1)
		go func(k int) {
			defer wg.Done()
			out := filepath.Join(work, fmt.Sprintf("w%d.json", k))
			env := []string{
				"VSIM_OUT=" + out, "VSIM_PROP=" + *prop, "VSIM_TIER=" + *tier, "VSIM_SEED=" + fmt.Sprint(seed),
				"VSIM_WORKER=" + fmt.Sprint(k), "VSIM_WORKERS=" + fmt.Sprint(*workers), "VSIM_RUNS=" + fmt.Sprint(budget.Runs),
				"VSIM_SECS=" + fmt.Sprint(budget.Secs), "VSIM_SHRINK_S=" + fmt.Sprint(shrinkS),
				"GOMAXPROCS=2",
			}
			code, output := runWorker(bin, env, hard)
			r := wres{exit: code, output: output}
			if b, err := os.ReadFile(out); err == nil {
				var s core.Summary
				if json.Unmarshal(b, &s) == nil && s.Complete {
					r.sum = &s
				}
			}
			if b, err := os.ReadFile(out + ".hang"); err == nil {
				json.Unmarshal(b, &r.hang)
			}
			results[k] = r
		}(k)
	}
	wg.Wait()

	ks := loadKnown()
	violations := 0
	knownSeen := map[string]bool{}
	var knownLines []string
	var violLines []string
	trouble := ""

	// merge
	total := core.Summary{Prop: *prop, Skipped: map[string]int{}, Faults: map[string]int{}, Probes: map[string]int{}}
	sigs := map[uint64]bool{}
	var samples [][]core.Note
	byKey := map[string]*core.FoundViolation{}
	var keys []string
	stopped := map[string]int{}
	hangFrames := map[string]bool{}
	for k, r := range results {
		if r.hang != nil {
			f := fmt.Sprint(r.hang["frame"])
			if f == "?" {
				f = fmt.Sprintf("?%d", len(hangFrames)%4) // unknown sites: examine up to four reports
			}
			if hangFrames[f] {
				continue // same hang site already handled
			}
			hangFrames[f] = true
			// a run exceeded the wall-clock watchdog: repeat it alone in a fresh
			// process with twice the limit before calling it a hang
			run := int(r.hang["hang_run"].(float64))
			limS := int(r.hang["timeout_s"].(float64)) * 2
			hseed, _ := strconv.ParseUint(fmt.Sprint(r.hang["seed"]), 10, 64)
			frame := fmt.Sprint(r.hang["frame"])
			rf := &core.ReplayFile{Property: *prop, Tier: *tier, Seed: hseed, Run: run, Harness: core.HarnessVersion,
				Violation: core.Violation{Class: "hang", Attrs: map[string]string{"frame": frame},
					Msg: fmt.Sprintf("run did not finish within %ds (confirmed alone in a fresh process); innermost library frame %s; stacks:\n%v", limS, frame, r.hang["stacks"])}}
			if tp, ok := r.hang["tape"].([]any); ok {
				for _, v := range tp {
					rf.Tape = append(rf.Tape, uint64(v.(float64)))
				}
			} else {
				rf.FromSeed = true
			}
			path := writeReplay(rf, "hang")
			switch confirmHang(bin, path, limS) {
			case "hang":
				if kf := matchKnown(ks, *prop, &rf.Violation); kf != nil {
					knownSeen[kf.ID] = true
				} else {
					violations++
					violLines = append(violLines, fmt.Sprintf("VIOLATION property=%s replay=%s", *prop, path))
					fmt.Printf("violation class=hang frame=%s (run %d)\n", frame, run)
				}
			default:
				total.SlowRuns++
				os.Remove(path)
			}
			continue
		}
		if r.sum == nil {
			trouble += fmt.Sprintf("worker %d died (exit %d) without a summary:\n%s\n", k, r.exit, tail(r.output, 6000))
			continue
		}
		s := r.sum
		total.Runs += s.Runs
		total.Corners += s.Corners
		total.Nontrivial += s.Nontrivial
		total.Steps += s.Steps
		total.Draws += s.Draws
		total.SlowRuns += s.SlowRuns
		stopped[s.StoppedBy]++
		if s.MaxRunMs > total.MaxRunMs {
			total.MaxRunMs = s.MaxRunMs
		}
		for k, v := range s.Skipped {
			total.Skipped[k] += v
		}
		for k, v := range s.Faults {
			total.Faults[k] += v
		}
		for k, v := range s.Probes {
			total.Probes[k] += v
		}
		for _, x := range s.Sigs {
			sigs[x] = true
		}
		samples = append(samples, s.Samples...)
		for _, fv := range s.Violations {
			key := fv.Key()
			if old, ok := byKey[key]; ok {
				old.Count += fv.Count
				if len(fv.Tape) < len(old.Tape) {
					fv.Count = old.Count
					byKey[key] = fv
				}
			} else {
				byKey[key] = fv
				keys = append(keys, key)
			}
		}
	}
	sort.Strings(keys)

	// crashed workers: find the run that kills the process
	if trouble != "" {
		for k, r := range results {
			if r.sum != nil || r.hang != nil {
				continue
			}
			if v := huntCrash(bin, *prop, *tier, seed, k, *workers, budget, work, r.output); v != nil {
				path := writeReplay(v, "crash")
				if kf := matchKnown(ks, *prop, &v.Violation); kf != nil {
					knownSeen[kf.ID] = true
				} else {
					violations++
					violLines = append(violLines, fmt.Sprintf("VIOLATION property=%s replay=%s", *prop, path))
				}
				trouble = ""
			}
		}
	}

	unrepro := 0
	for _, key := range keys {
		fv := byKey[key]
		if kf := matchKnown(ks, *prop, &fv.Violation); kf != nil {
			if !knownSeen[kf.ID] {
				knownSeen[kf.ID] = true
			}
			continue
		}
		rf := &core.ReplayFile{Property: *prop, Tier: *tier, Seed: fv.Seed, Run: fv.Run, Harness: core.HarnessVersion, Tape: fv.Tape,
			Labels: fv.Labels, Scenario: fv.Scenario, Violation: fv.Violation, Shrunk: fv.Shrunk, OrigLen: fv.OrigLen, Corner: fv.Corner, Attachments: fv.Attachments}
		path := writeReplay(rf, fv.Class)
		// confirm in a fresh process
		ok := 0
		for i := 0; i < 3; i++ {
			rr, msg := replayOnce(bin, path, 10*time.Minute)
			if rr != nil && rr.Violation != nil && rr.Violation.Key() == key {
				ok++
			} else if rr == nil {
				fmt.Fprintf(os.Stderr, "replay attempt failed: %s\n", msg)
			}
		}
		rf.Reproduced = fmt.Sprintf("%d/3", ok)
		writeReplayAt(rf, path)
		if ok == 0 {
			unrepro++
			fmt.Fprintf(os.Stderr, "check: violation %q did not reproduce from its replay file %s (harness nondeterminism?)\n", key, path)
			continue
		}
		violations++
		violLines = append(violLines, fmt.Sprintf("VIOLATION property=%s replay=%s", *prop, path))
		fmt.Printf("violation class=%s attrs=%v runs_hit=%d tape=%d (from %d) reproduced=%s\n  %s\n", fv.Class, fv.Attrs, fv.Count, len(fv.Tape), fv.OrigLen, rf.Reproduced,
			strings.ReplaceAll(tail(firstLines(fv.Msg, 6), 1200), "\n", "\n  "))
	}
	for _, k := range ks {
		if knownSeen[k.ID] {
			knownLines = append(knownLines, fmt.Sprintf("KNOWN-FINDING: property=%s %s: %s", *prop, k.ID, k.What))
		}
	}

	// race sub-check (C18): the same kinds of workload with real goroutines
	// and the uninstrumented library under the race detector
	raceInfo := map[string]any{}
	if raceProps[*prop] {
		rs := 20
		if *tier == "thorough" {
			rs = 240
		}
		vio, info := racePhase(*prop, *tier, seed, *workers, rs, ks)
		raceInfo = info
		for _, line := range vio {
			violations++
			violLines = append(violLines, line)
		}
	}

	wall := time.Since(start).Seconds()
	skipped := 0
	for _, v := range total.Skipped {
		skipped += v
	}

	// evidence
	var sampleOut []any
	for i, s := range samples {
		if i >= 3 {
			break
		}
		sampleOut = append(sampleOut, s)
	}
	if len(sampleOut) == 0 {
		sampleOut = append(sampleOut, "no non-trivial run completed")
	}
	var knownIDs []string
	for id := range knownSeen {
		knownIDs = append(knownIDs, id)
	}
	sort.Strings(knownIDs)
	var zeroProbes []string
	for _, p := range info.WantProbes {
		if total.Probes[p] == 0 {
			zeroProbes = append(zeroProbes, p)
		}
	}
	runS := wall - buildS
	if runS <= 0 {
		runS = 1e-3
	}
	ev := map[string]any{
		"property_id": *prop,
		"tier":        *tier,
		"seed":        int64(seed & 0x7fffffffffffffff),
		"level":       info.Level,
		"coverage": map[string]any{
			"evaluations":         total.Runs,
			"distinct_nontrivial": len(sigs),
			"nontrivial_runs":     total.Nontrivial,
			"rule":                info.Rule,
			"samples":             sampleOut,
			"runs_per_hour":       int(float64(total.Runs) / runS * 3600),
			"logical_steps":       total.Steps,
			"simulated_time_note": simTimeNote(*prop),
			"tape_draws":          total.Draws,
			"faults_fired":        total.Faults,
			"reach_probes":        total.Probes,
			"probes_at_zero":      zeroProbes,
			"skipped":             total.Skipped,
			"corner_scenarios":    total.Corners,
			"workers":             *workers,
			"stopped_by":          stopped,
			"components_real":     info.Real,
			"components_stub":     info.Stub,
			"known_findings_seen": knownIDs,
			"race_subcheck":       raceInfo,
		},
		"diagnostics": map[string]any{"max_run_ms": total.MaxRunMs, "slow_runs": total.SlowRuns, "unreproducible": unrepro, "build_s": buildS},
		"assumptions": info.Assumptions,
		"wall_s":      wall,
		"violations":  violations,
	}
	evPath := filepath.Join(root, "evidence", *prop+".json")
	os.MkdirAll(filepath.Dir(evPath), 0o755)
	b, _ := json.MarshalIndent(ev, "", " ")
	if err := os.WriteFile(evPath, b, 0o644); err != nil {
		fatal2("writing evidence: %v", err)
	}

	fmt.Printf("%s %s seed=%d: %d runs (%d non-trivial, %d distinct), %d skipped, %.0f runs/h, faults=%v, wall %.1fs\n",
		*prop, *tier, seed, total.Runs, total.Nontrivial, len(sigs), skipped, float64(total.Runs)/runS*3600, total.Faults, wall)
	if len(zeroProbes) > 0 {
		fmt.Printf("warning: reach probes at zero: %v\n", zeroProbes)
	}
	for _, l := range knownLines {
		fmt.Println(l)
	}
	for _, l := range violLines {
		fmt.Println(l)
	}
	if violations > 0 {
		os.Exit(1)
	}
	if trouble != "" {
		fatal2("%s", trouble)
	}
	if unrepro > 0 {
		fatal2("%d violation(s) did not reproduce from their replay files; treated as harness trouble, not reported", unrepro)
	}
	if total.Runs == 0 {
		fatal2("no runs executed")
	}
	if float64(skipped) > 0.05*float64(total.Runs) {
		fatal2("%d of %d runs could not be evaluated (%v): the generator and the system disagree about what is valid; this is not a verdict", skipped, total.Runs, total.Skipped)
	}
	if len(sigs) < 2 {
		fatal2("fewer than two distinct non-trivial cases were explored")
	}
}

// confirmHang replays a file with the hang watchdog armed; it returns "hang"
// if the replay again fails to finish, otherwise "finished".
func confirmHang(bin, path string, limS int) string {
	out := path + ".out"
	defer os.Remove(out)
	defer os.Remove(out + ".hang")
	code, _ := runWorker(bin, []string{"VSIM_OUT=" + out, "VSIM_REPLAY=" + path, "VSIM_TIMEOUT_S=" + fmt.Sprint(limS)}, time.Duration(limS+60)*time.Second)
	if _, err := os.Stat(out); err == nil {
		return "finished"
	}
	if code == 3 || code == -2 {
		return "hang"
	}
	return "finished"
}

func firstLines(s string, n int) string {
	lines := strings.Split(s, "\n")
	if len(lines) > n {
		lines = lines[:n]
	}
	return strings.Join(lines, "\n")
}

func isFlagSet(name string) bool {
	set := false
	flag.Visit(func(f *flag.Flag) {
		if f.Name == name {
			set = true
		}
	})
	return set
}

func writeReplay(rf *core.ReplayFile, class string) string {
	dir := filepath.Join(root, "replays")
	os.MkdirAll(dir, 0o755)
	clean := strings.Map(func(r rune) rune {
		if r >= 'a' && r <= 'z' || r >= 'A' && r <= 'Z' || r >= '0' && r <= '9' || r == '-' {
			return r
		}
		return '_'
	}, class)
	path := filepath.Join(dir, fmt.Sprintf("%s-%s-%d-%x.json", rf.Property, clean, rf.Run, rf.Seed&0xffffff))
	writeReplayAt(rf, path)
	return path
}

func writeReplayAt(rf *core.ReplayFile, path string) {
	b, _ := json.MarshalIndent(rf, "", " ")
	os.WriteFile(path, b, 0o644)
}

// huntCrash re-runs the slice of a worker that died, recording progress, to
// find the run that kills the process.
func huntCrash(bin, prop, tier string, seed uint64, k, workers int, budget core.Budget, work, firstOutput string) *core.ReplayFile {
	prog := filepath.Join(work, fmt.Sprintf("progress%d", k))
	out := filepath.Join(work, fmt.Sprintf("hunt%d.json", k))
	env := []string{"VSIM_OUT=" + out, "VSIM_PROP=" + prop, "VSIM_TIER=" + tier, "VSIM_SEED=" + fmt.Sprint(seed),
		"VSIM_WORKER=" + fmt.Sprint(k), "VSIM_WORKERS=" + fmt.Sprint(workers), "VSIM_RUNS=" + fmt.Sprint(budget.Runs),
		"VSIM_SECS=" + fmt.Sprint(budget.Secs), "VSIM_PROGRESS=" + prog}
	code, output := runWorker(bin, env, time.Duration(budget.Secs)*time.Second+20*time.Minute)
	if code == 0 {
		return nil
	}
	b, err := os.ReadFile(prog)
	if err != nil {
		return nil
	}
	run, err := strconv.Atoi(strings.TrimSpace(string(b)))
	if err != nil {
		return nil
	}
	// confirm alone
	env = []string{"VSIM_OUT=" + out, "VSIM_PROP=" + prop, "VSIM_TIER=" + tier, "VSIM_SEED=" + fmt.Sprint(seed),
		"VSIM_ONLY_RUN=" + fmt.Sprint(run), "VSIM_RUNS=1", "VSIM_SECS=0", "VSIM_WORKERS=1"}
	code2, output2 := runWorker(bin, env, 30*time.Minute)
	if code2 == 0 {
		return nil
	}
	_ = output
	frame := "?"
	for _, l := range strings.Split(output2, "\n") {
		l = strings.TrimSpace(l)
		if strings.HasPrefix(l, "seehuhn.de/go/") {
			if i := strings.LastIndex(l, "("); i > 0 {
				l = l[:i]
			}
			frame = l
			break
		}
	}
	return &core.ReplayFile{Property: prop, Tier: tier, Seed: core.RunSeed(seed, prop, run), Run: run, Harness: core.HarnessVersion,
		Violation: core.Violation{Class: "process-crash", Attrs: map[string]string{"frame": frame},
			Msg: fmt.Sprintf("run %d kills the worker process (confirmed alone in a fresh process):\n%s", run, tail(output2, 5000))},
		Comment: fmt.Sprintf("reproduce: VSIM_OUT=/tmp/o VSIM_PROP=%s VSIM_TIER=%s VSIM_SEED=%d VSIM_ONLY_RUN=%d %s -test.run TestWorker", prop, tier, seed, run, bin)}
}

func doReplay(path string) {
	b, err := os.ReadFile(path)
	if err != nil {
		fatal2("%v", err)
	}
	var rf core.ReplayFile
	if err := json.Unmarshal(b, &rf); err != nil {
		fatal2("%v", err)
	}
	bin := build(rf.Property, overlayProps[rf.Property])
	if rf.Violation.Class == "hang" {
		if confirmHang(bin, path, 120) == "hang" {
			fmt.Printf("%s replay %s: run does not finish within 120s (hang reproduced)\nVIOLATION property=%s replay=%s\n", rf.Property, path, rf.Property, path)
			os.Exit(1)
		}
	}
	if len(rf.Tape) == 0 && rf.Corner == "" && !rf.FromSeed && rf.Violation.Class == "process-crash" {
		fmt.Printf("%s replay: class %s has no tape; %s\n", rf.Property, rf.Violation.Class, rf.Comment)
		os.Exit(2)
	}
	rr, msg := replayOnce(bin, path, 30*time.Minute)
	if rr == nil {
		fatal2("replay failed to run: %s", msg)
	}
	for _, n := range rr.Scenario {
		fmt.Printf("  %s: %v\n", n.K, n.V)
	}
	if rr.Violation == nil {
		fmt.Printf("%s replay %s: no violation (recorded: %s)\n", rf.Property, path, rf.Violation.Key())
		os.Exit(0)
	}
	same := rr.Violation.Key() == rf.Violation.Key()
	fmt.Printf("%s replay %s: violation class=%s attrs=%v same_as_recorded=%v\n  %s\n", rf.Property, path, rr.Violation.Class, rr.Violation.Attrs, same, rr.Violation.Msg)
	if ks := loadKnown(); matchKnown(ks, rf.Property, rr.Violation) != nil {
		fmt.Printf("KNOWN-FINDING: property=%s %s\n", rf.Property, matchKnown(ks, rf.Property, rr.Violation).What)
		os.Exit(0)
	}
	fmt.Printf("VIOLATION property=%s replay=%s\n", rf.Property, path)
	os.Exit(1)
}

// doSelftest runs the same run indices in six fresh processes (GOMAXPROCS
// 1, 4, 16, twice each) and compares the per-run event logs byte for byte.
func doSelftest(prop, tier string, seed uint64, runs int) {
	bin := build(prop, overlayProps[prop])
	if runs <= 0 {
		runs = 400
	}
	work := filepath.Join(root, ".build", prop, "selftest")
	os.RemoveAll(work)
	os.MkdirAll(work, 0o755)
	var logs [][]byte
	var names []string
	var wg sync.WaitGroup
	procs := []string{"1", "4", "16", "1", "4", "16"}
	results := make([][]byte, len(procs))
	for i, gmp := range procs {
		wg.Add(1)
		go func(i int, gmp string) {
			defer wg.Done()
			lg := filepath.Join(work, fmt.Sprintf("ev%d.log", i))
			env := []string{"VSIM_OUT=" + filepath.Join(work, fmt.Sprintf("o%d.json", i)), "VSIM_PROP=" + prop, "VSIM_TIER=" + tier, "VSIM_SEED=" + fmt.Sprint(seed),
				"VSIM_WORKER=0", "VSIM_WORKERS=1", "VSIM_RUNS=" + fmt.Sprint(runs), "VSIM_SECS=0", "VSIM_EVENTLOG=" + lg, "GOMAXPROCS=" + gmp, "VSIM_SHRINK_S=1"}
			runWorker(bin, env, 30*time.Minute)
			results[i], _ = os.ReadFile(lg)
		}(i, gmp)
	}
	wg.Wait()
	for i := range procs {
		logs = append(logs, results[i])
		names = append(names, fmt.Sprintf("process %d (GOMAXPROCS=%s)", i, procs[i]))
	}
	ok := true
	for i := 1; i < len(logs); i++ {
		if string(logs[i]) != string(logs[0]) || len(logs[0]) == 0 {
			ok = false
			a := strings.Split(string(logs[0]), "\n")
			b := strings.Split(string(logs[i]), "\n")
			for k := 0; k < len(a) && k < len(b); k++ {
				if a[k] != b[k] {
					fmt.Printf("%s differs from %s at run line %d:\n  %s\n  %s\n", names[i], names[0], k, a[k], b[k])
					break
				}
			}
			if len(a) != len(b) {
				fmt.Printf("%s has %d lines, %s has %d\n", names[0], len(a), names[i], len(b))
			}
		}
	}
	lines := strings.Count(string(logs[0]), "\n")
	if ok {
		fmt.Printf("%s determinism self-test: %d runs x %d fresh processes (GOMAXPROCS 1/4/16), event logs identical\n", prop, lines, len(procs))
		return
	}
	fmt.Printf("%s determinism self-test FAILED\n", prop)
	os.Exit(2)
}

func simTimeNote(prop string) string {
	base := "the library has no clocks or timers; simulated time is reported as logical steps (I/O operations, scheduler steps, enumerated fault points)"
	if strings.HasPrefix(overlayProps[prop], "work") {
		base += "; for this check the duration of library work is simulated as well: a deterministic counter of function entries and loop iterations inserted by a build overlay (totals under reach_probes, 'measured: simulated time ...')"
	}
	return base
}
