// Package richdoc builds documents with the library's high-level packages
// (pages and page tree, content streams, fonts, images, outlines, name trees,
// encryption) as base images for the corruption walker of C05.
package richdoc

import (
	"bytes"
	"fmt"
	"image"
	"image/color"
	"image/jpeg"

	"seehuhn.de/go/pdf"
	"seehuhn.de/go/pdf/document"
	"seehuhn.de/go/pdf/font"
	"seehuhn.de/go/pdf/font/gofont"
	"seehuhn.de/go/pdf/font/standard"
	pdfcolor "seehuhn.de/go/pdf/graphics/color"
	pdfimage "seehuhn.de/go/pdf/graphics/image"
	"seehuhn.de/go/pdf/nametree"
	"seehuhn.de/go/pdf/outline"
	"verif/sim/simdisk"
	"verif/sim/tape"
	"verif/sim/wprog"
)

// Info describes what was built.
type Info struct {
	Desc     string
	Password string
	Pages    int
}

// Build draws and writes a document; it returns the image.
func Build(t *tape.Tape) ([]byte, *Info, error) {
	info := &Info{}
	version := tape.Pick(t, "rich.version", pdf.V1_7, pdf.V2_0, pdf.V1_4, pdf.V1_6, pdf.V1_2)
	opt := &pdf.WriterOptions{HumanReadable: t.Bool("rich.human", 1, 4)}
	if version >= pdf.V1_4 && t.Bool("rich.encrypt", 1, 5) {
		info.Password = "secret"
		opt.UserPassword = "secret"
		opt.UserPermissions = pdf.PermAll
	}
	disk := simdisk.NewDisk()
	sink := simdisk.SinkKind(t.Draw("rich.sink", int(simdisk.NumSinkKinds)))
	var err error
	var doc *document.MultiPage
	rnd := t.Sub("rich.rand")
	wprog.WithSeededRand(rnd, func() {
		doc, err = document.WriteMultiPage(disk.Sink(sink), document.A5, version, opt)
		if err != nil {
			return
		}
		err = build(t, doc, version, info)
	})
	if err != nil {
		return nil, nil, err
	}
	info.Desc = fmt.Sprintf("rich v%s human=%v sink=%s pw=%q pages=%d %s", version, opt.HumanReadable, sink, info.Password, info.Pages, info.Desc)
	return disk.Data, info, nil
}

func build(t *tape.Tape, doc *document.MultiPage, version pdf.Version, info *Info) error {
	nPages := 1 + t.Draw("rich.pages", 3)
	info.Pages = nPages
	var fonts []font.Layouter
	addFont := func(f font.Layouter, err error, name string) {
		if err == nil && f != nil {
			fonts = append(fonts, f)
			info.Desc += name + " "
		}
	}
	if t.Bool("rich.f.simple", 2, 3) {
		f, err := gofont.Regular.NewSimple(nil)
		addFont(f, err, "go-simple")
	}
	if version >= pdf.V1_3 && t.Bool("rich.f.composite", 1, 2) {
		f, err := gofont.Italic.NewComposite(nil)
		addFont(f, err, "go-composite")
	}
	if t.Bool("rich.f.std", 1, 2) {
		f, err := standard.Helvetica.New()
		addFont(f, err, "helvetica")
	}
	if t.Bool("rich.f.std2", 1, 3) {
		f, err := standard.TimesRoman.New()
		addFont(f, err, "times")
	}
	texts := []string{"Hello, World!", "The quick brown fox", "ﬁnal ﬂight", "Größe: 10€", "(parentheses) \\ backslash"}
	ol := &outline.Outline{}
	for p := 0; p < nPages; p++ {
		pg := doc.AddPage()
		if len(fonts) > 0 {
			pg.TextBegin()
			pg.TextFirstLine(40, 500)
			for k := 0; k < 1+t.Draw(fmt.Sprintf("rich.p%d.lines", p), 4); k++ {
				f := fonts[t.Draw(fmt.Sprintf("rich.p%d.f%d", p, k), len(fonts))]
				pg.TextSetFont(f, 12)
				pg.TextShow(texts[t.Draw(fmt.Sprintf("rich.p%d.t%d", p, k), len(texts))])
				pg.TextSecondLine(0, -16)
			}
			pg.TextEnd()
		}
		pg.SetFillColor(pdfcolor.DeviceRGB{0.2, 0.4, 0.6})
		pg.Rectangle(30, 30, 100, 50)
		pg.Fill()
		if t.Bool(fmt.Sprintf("rich.p%d.img", p), 1, 2) {
			w, h := 4+t.Draw(fmt.Sprintf("rich.p%d.w", p), 20), 4+t.Draw(fmt.Sprintf("rich.p%d.h", p), 20)
			if t.Bool(fmt.Sprintf("rich.p%d.big", p), 1, 3) {
				// more decoded data than any stage buffers (4 KiB bufio, 64 KiB pipe chunks)
				w, h = 60+t.Draw(fmt.Sprintf("rich.p%d.bw", p), 60), 60+t.Draw(fmt.Sprintf("rich.p%d.bh", p), 60)
			}
			img := image.NewNRGBA(image.Rect(0, 0, w, h))
			for y := 0; y < h; y++ {
				for x := 0; x < w; x++ {
					img.Set(x, y, color.NRGBA{uint8(x * 12), uint8(y * 12), uint8(x ^ y), 255})
				}
			}
			var d *pdfimage.Dict
			if version >= pdf.V1_2 && t.Bool(fmt.Sprintf("rich.p%d.dct", p), 1, 2) {
				d = &pdfimage.Dict{Width: w, Height: h, ColorSpace: pdfcolor.SpaceDeviceRGB, BitsPerComponent: 8, Data: &pdfimage.DCTSource{Image: img}}
				info.Desc += "dct-image "
			} else {
				d = pdfimage.FromImage(img, pdfcolor.SpaceDeviceRGB, 8)
				info.Desc += "image "
			}
			pg.PushGraphicsState()
			pg.DrawXObject(d)
			pg.PopGraphicsState()
		}
		if err := pg.Close(); err != nil {
			return err
		}
		it := ol.AddItem(fmt.Sprintf("Page %d", p+1))
		if t.Bool(fmt.Sprintf("rich.p%d.child", p), 1, 2) {
			it.AddChild("child").AddChild("grandchild")
		}
	}
	if t.Bool("rich.outline", 2, 3) {
		ref, err := doc.RM.Store(ol)
		if err != nil {
			return err
		}
		doc.Out.GetMeta().Catalog.Outlines = ref
		info.Desc += "outline "
	}
	if version >= pdf.V1_2 && t.Bool("rich.names", 1, 2) {
		n := 1 + t.Draw("rich.names.n", 200)
		m := map[pdf.Name]pdf.Object{}
		for i := 0; i < n; i++ {
			m[pdf.Name(fmt.Sprintf("key%04d", i*7))] = pdf.Integer(i)
		}
		ref, err := nametree.WriteMap(doc.Out, m)
		if err == nil && ref != 0 {
			doc.Out.GetMeta().Catalog.Names = pdf.Dict{"Dests": ref}
			info.Desc += "nametree "
		}
	}
	if t.Bool("rich.handmade", 1, 2) {
		if err := handmadePage(t, doc); err != nil {
			return err
		}
		info.Desc += "handmade-page "
		info.Pages++
	}
	if version >= pdf.V1_2 && t.Bool("rich.diamond", 1, 4) {
		// Hostile but syntactically fine: trees whose intermediate nodes are
		// shared (each node lists the next one twice).  There are depth+1
		// nodes and 2^depth paths; a walker has to remember what it has seen.
		w := doc.Out
		depth := tape.Pick(t, "rich.diamond.depth", 2, 6, 20, 48)
		if t.Bool("rich.diamond.names", 2, 3) {
			nodes := make([]pdf.Reference, depth+1)
			for i := range nodes {
				nodes[i] = w.Alloc()
			}
			for i := 0; i < depth; i++ {
				d := pdf.Dict{"Kids": pdf.Array{nodes[i+1], nodes[i+1]}}
				if i > 0 {
					d["Limits"] = pdf.Array{pdf.String("a"), pdf.String("b")}
				}
				w.Put(nodes[i], d)
			}
			w.Put(nodes[depth], pdf.Dict{"Names": pdf.Array{pdf.String("a"), pdf.Integer(1), pdf.String("b"), pdf.Integer(2)}, "Limits": pdf.Array{pdf.String("a"), pdf.String("b")}})
			w.GetMeta().Catalog.Names = pdf.Dict{"Dests": nodes[0]}
			info.Desc += fmt.Sprintf("diamond-nametree(%d) ", depth)
		}
		if t.Bool("rich.diamond.outline", 1, 2) {
			// every item is both the first child and the next sibling of its
			// predecessor
			items := make([]pdf.Reference, depth+1)
			for i := range items {
				items[i] = w.Alloc()
			}
			root := w.Alloc()
			w.Put(root, pdf.Dict{"Type": pdf.Name("Outlines"), "First": items[0], "Last": items[0], "Count": pdf.Integer(depth)})
			for i := range items {
				d := pdf.Dict{"Title": pdf.String(fmt.Sprintf("item %d", i)), "Parent": root}
				if i < depth {
					d["First"] = items[i+1]
					d["Last"] = items[i+1]
					d["Next"] = items[i+1]
					d["Count"] = pdf.Integer(1)
				}
				w.Put(items[i], d)
			}
			w.GetMeta().Catalog.Outlines = root
			info.Desc += fmt.Sprintf("diamond-outline(%d) ", depth)
		}
	}
	doc.Out.GetMeta().Info.Title = "rich document"
	return doc.Close()
}

// handmadePage appends a page written object by object, with the sharing
// patterns the typed writers never produce: several resource dictionaries
// pointing at the same indirect sub-object (soft mask /None, colour space,
// font), so that the reader's caches are hit through different parents.
func handmadePage(t *tape.Tape, doc *document.MultiPage) error {
	w := doc.Out
	smask := w.Alloc()
	var sm pdf.Object = pdf.Name("None")
	if t.Bool("rich.hm.smasknull", 1, 3) {
		sm = nil
	}
	if err := w.Put(smask, sm); err != nil {
		return err
	}
	cs := w.Alloc()
	w.Put(cs, pdf.Array{pdf.Name("CalGray"), pdf.Dict{"WhitePoint": pdf.Array{pdf.Real(0.95), pdf.Integer(1), pdf.Real(1.09)}}})
	fnt := w.Alloc()
	fontDict := pdf.Dict{"Type": pdf.Name("Font"), "Subtype": pdf.Name("Type1"), "BaseFont": pdf.Name("Courier")}
	if t.Bool("rich.hm.tounicode", 1, 2) {
		// a ToUnicode CMap written by hand (uncompressed), optionally hostile:
		// wide multi-byte ranges on a simple font, huge counts, odd code lengths
		body := tape.Pick(t, "rich.hm.cmap",
			"1 beginbfrange\n<41> <5A> <0041>\nendbfrange\n",
			"1 beginbfrange\n<00000000> <FFFFFFFF> <0041>\nendbfrange\n",
			"1 beginbfrange\n<0000000000000000> <FFFFFFFFFFFFFFFF> <0041>\nendbfrange\n",
			"2 beginbfrange\n<0000> <FFFF> <0020>\n<000000> <FFFFFF> [<0041>]\nendbfrange\n",
			"1 beginbfchar\n<41> <D83DDE00>\nendbfchar\n100000 beginbfrange\n<00> <FF> <0000>\nendbfrange\n",
			"1 beginbfrange\n<FF> <00> <0041>\nendbfrange\n")
		csr := tape.Pick(t, "rich.hm.csr", "<00> <FF>", "<0000> <FFFF>", "<00000000> <FFFFFFFF>", "<00> <FF>\n<0000> <FFFF>")
		cm := "/CIDInit /ProcSet findresource begin\n12 dict begin\nbegincmap\n/CMapName /Adobe-Identity-UCS def\n/CMapType 2 def\n1 begincodespacerange\n" + csr + "\nendcodespacerange\n" + body + "endcmap\nCMapName currentdict /CMap defineresource pop\nend\nend\n"
		tu := w.Alloc()
		w.Put(tu, pdf.NewStream(pdf.Dict{}, []byte(cm)))
		fontDict["ToUnicode"] = tu
		fontDict["FirstChar"] = pdf.Integer(65)
		fontDict["LastChar"] = pdf.Integer(66)
		fontDict["Widths"] = pdf.Array{pdf.Integer(600), pdf.Integer(600)}
	}
	w.Put(fnt, fontDict)
	gs1, gs2 := w.Alloc(), w.Alloc()
	w.Put(gs1, pdf.Dict{"Type": pdf.Name("ExtGState"), "SMask": smask, "LW": pdf.Integer(2)})
	w.Put(gs2, pdf.Dict{"Type": pdf.Name("ExtGState"), "SMask": smask, "LW": pdf.Integer(3)})
	cont := w.Alloc()
	w.Put(cont, pdf.NewStream(pdf.Dict{}, []byte("q /GS1 gs /GS2 gs /CS1 cs 0.5 sc 10 10 50 50 re f BT /F1 10 Tf 20 100 Td (shared) Tj /F2 10 Tf (font) Tj ET Q\n")))
	res := pdf.Dict{
		"ExtGState":  pdf.Dict{"GS1": gs1, "GS2": gs2},
		"ColorSpace": pdf.Dict{"CS1": cs, "CS2": cs},
		"Font":       pdf.Dict{"F1": fnt, "F2": fnt},
	}
	var contents pdf.Object = cont
	if t.Bool("rich.hm.hostilecontent", 1, 3) {
		// a second content stream whose filter chain has a JPEG decoder below a
		// stage that fails in the middle of the data: the pixels decode to the
		// hex digit '4' (give or take one) for the first 12 KiB and to '{'
		// afterwards, so ASCIIHexDecode reports malformed data while the JPEG
		// producer still has output pending
		g := image.NewGray(image.Rect(0, 0, 128, 128))
		for i := range g.Pix {
			g.Pix[i] = 0x34
			if i >= 128*96 {
				g.Pix[i] = 0x7b
			}
		}
		var jb bytes.Buffer
		jpeg.Encode(&jb, g, &jpeg.Options{Quality: 100})
		chain := tape.Pick(t, "rich.hm.hostilechain", pdf.Array{pdf.Name("DCTDecode"), pdf.Name("ASCIIHexDecode")}, pdf.Array{pdf.Name("DCTDecode"), pdf.Name("ASCII85Decode")}, pdf.Array{pdf.Name("DCTDecode"), pdf.Name("FlateDecode")}, pdf.Array{pdf.Name("DCTDecode"), pdf.Name("ASCIIHexDecode"), pdf.Name("RunLengthDecode")})
		hc := w.Alloc()
		w.Put(hc, pdf.NewStream(pdf.Dict{"Filter": chain}, jb.Bytes()))
		if t.Bool("rich.hm.hostilefirst", 1, 2) {
			contents = pdf.Array{hc, cont}
		} else {
			contents = pdf.Array{cont, hc}
		}
	}
	return doc.Tree.AppendPageDict(w.Alloc(), pdf.Dict{"Type": pdf.Name("Page"), "MediaBox": pdf.Array{pdf.Integer(0), pdf.Integer(0), pdf.Integer(200), pdf.Integer(200)}, "Contents": contents, "Resources": res})
}
