// Package gen draws PDF object trees and stream bodies from a tape and
// provides the value model (deep copy, semantic equality) the oracles use.
package gen

import (
	"bytes"
	"fmt"
	"math"
	"sort"
	"strings"

	"seehuhn.de/go/pdf"
	"verif/sim/tape"
)

// Opts steers object generation.
type Opts struct {
	// Refs are references that may appear inside generated objects.
	Refs []pdf.Reference
	// MaxDepth bounds nesting.
	MaxDepth int
	// NoStringsLike, if set, rejects strings/names for which it returns true
	// (used by C20 to keep look-alike keywords out of strings).
	SafeText bool
}

var interestingInts = []int64{0, 1, -1, 2, 7, 10, 127, 128, 255, 256, 65535, 65536, 1<<24 - 1, 1 << 24, 1<<31 - 1, 1 << 31, -(1 << 31),
	1<<32 - 1, 1 << 32, 1<<53 + 1, math.MaxInt64, math.MinInt64, math.MaxInt64 - 1, math.MinInt64 + 1, 999999999, 1000000000, 9999999999}

var interestingReals = []float64{0, 1, -1, 0.5, -0.5, 1.5, 3.14159, 1e-5, 0.1, 1e10, 1e15, 1e16, 1e21, 123456.789, -0.000001,
	1e300, -1e300, 1e-300, 5e-324, math.MaxFloat64, math.SmallestNonzeroFloat64, 2.2250738585072014e-308, 1.0 / 3.0, 1e22, 1e23, math.Copysign(0, -1),
	4294967296.5, 9007199254740993, 0.30000000000000004}

var delimBytes = []byte("()<>[]{}/%#\\ \t\r\n\f\x00")

// Bytes draws a byte string biased to delimiters, escapes and EOLs.
func Bytes(t *tape.Tape, label string, maxLen int) []byte {
	kind := t.Weighted(label+".kind", 4, 3, 3, 2, 1)
	var n int
	switch t.Weighted(label+".len", 3, 5, 2, 1) {
	case 0:
		n = 0
	case 1:
		n = 1 + t.Draw(label+".n", 8)
	case 2:
		n = 1 + t.Draw(label+".n", 40)
	default:
		n = 1 + t.Draw(label+".n", maxLen)
	}
	if n > maxLen {
		n = maxLen
	}
	if n == 0 {
		return []byte{}
	}
	st := t.Sub(label + ".seed")
	out := make([]byte, n)
	for i := range out {
		switch kind {
		case 0: // plain letters
			out[i] = byte('a' + st.Intn(26))
		case 1: // delimiters
			out[i] = delimBytes[st.Intn(len(delimBytes))]
		case 2: // mix
			if st.Intn(3) == 0 {
				out[i] = delimBytes[st.Intn(len(delimBytes))]
			} else {
				out[i] = byte('A' + st.Intn(58))
			}
		case 3: // all byte values
			out[i] = byte(st.Intn(256))
		default: // parentheses and backslashes
			out[i] = "()\\\r\n"[st.Intn(5)]
		}
	}
	return out
}

// Name draws a name (<=127 bytes; all byte values except NUL are legal in
// PDF 1.2+, NUL included here since the formatter escapes it).
func Name(t *tape.Tape, label string) pdf.Name {
	switch t.Weighted(label+".k", 6, 3, 1) {
	case 0:
		names := []pdf.Name{"A", "Type", "B", "Length", "Filter", "Kids", "X1", "R", "obj", "endobj", "stream", "null", "true", "1", "1.5"}
		return names[t.Draw(label+".i", len(names))]
	case 1:
		b := Bytes(t, label+".b", 24)
		return pdf.Name(b)
	default:
		b := Bytes(t, label+".b", 127)
		return pdf.Name(b)
	}
}

var lookAlike = []string{"endstream", "endobj", "stream", "obj", "xref", "trailer", "startxref", "%%EOF", "%PDF-", " R", " 0 R", "<<", ">>", "\n1 0 obj\n", "\nendstream", "\r\nendstream\r\n", "\nxref\n"}

// String draws a string.
func String(t *tape.Tape, label string, o *Opts) pdf.String {
	if !o.SafeText && t.Bool(label+".look", 1, 10) {
		s := lookAlike[t.Draw(label+".li", len(lookAlike))]
		pre := Bytes(t, label+".pre", 6)
		return pdf.String(append(pre, s...))
	}
	b := Bytes(t, label+".b", 300)
	if o.SafeText {
		b = sanitize(b)
	}
	return pdf.String(b)
}

// sanitize removes EOL bytes so that no line-initial keyword can arise.
func sanitize(b []byte) []byte {
	out := make([]byte, len(b))
	for i, c := range b {
		if c == '\r' || c == '\n' {
			c = '_'
		}
		out[i] = c
	}
	return out
}

// Scalar draws a non-container object.
func Scalar(t *tape.Tape, label string, o *Opts) pdf.Object {
	switch t.Weighted(label+".t", 3, 2, 4, 3, 3, 4, 3) {
	case 0:
		return pdf.Integer(t.Draw(label+".small", 100))
	case 1:
		return nil
	case 2:
		if t.Bool(label+".ext", 1, 2) {
			return pdf.Integer(interestingInts[t.Draw(label+".ii", len(interestingInts))])
		}
		return pdf.Integer(int64(t.Draw64(label+".i", 0)))
	case 3:
		if t.Bool(label+".ext", 2, 3) {
			return pdf.Real(interestingReals[t.Draw(label+".ri", len(interestingReals))])
		}
		f := math.Float64frombits(t.Draw64(label+".r", 0))
		if math.IsNaN(f) || math.IsInf(f, 0) {
			f = 0.25
		}
		return pdf.Real(f)
	case 4:
		return Name(t, label+".name")
	case 5:
		return String(t, label+".str", o)
	default:
		if len(o.Refs) > 0 && t.Bool(label+".ref", 3, 4) {
			return o.Refs[t.Draw(label+".refi", len(o.Refs))]
		}
		return pdf.Boolean(t.Bool(label+".b", 1, 2))
	}
}

// Object draws an object tree.
func Object(t *tape.Tape, label string, o *Opts, depth int) pdf.Object {
	if depth >= o.MaxDepth {
		return Scalar(t, label, o)
	}
	switch t.Weighted(label+".c", 5, 3, 3) {
	case 0:
		return Scalar(t, label, o)
	case 1:
		n := t.Weighted(label+".alen", 2, 3, 3, 2, 1)
		if n == 4 {
			n = 4 + t.Draw(label+".alen2", 20)
		}
		arr := make(pdf.Array, n)
		for i := range arr {
			arr[i] = Object(t, fmt.Sprintf("%s[%d]", label, i), o, depth+1)
		}
		return arr
	default:
		return Dict(t, label, o, depth)
	}
}

// Dict draws a dictionary.
func Dict(t *tape.Tape, label string, o *Opts, depth int) pdf.Dict {
	n := t.Weighted(label+".dlen", 2, 3, 3, 2, 1)
	if n == 4 {
		n = 4 + t.Draw(label+".dlen2", 12)
	}
	d := pdf.Dict{}
	for i := 0; i < n; i++ {
		k := Name(t, fmt.Sprintf("%s.k%d", label, i))
		d[k] = Object(t, fmt.Sprintf("%s.v%d", label, i), o, depth+1)
	}
	return d
}

// TopLevel draws an object suitable for Writer.Put (not a bare nil Dict etc.).
func TopLevel(t *tape.Tape, label string, o *Opts) pdf.Object {
	return Object(t, label, o, 0)
}

// Body draws a stream body.  With safe set, no line starts with something
// the sequential scanner could mistake for a marker.
func Body(t *tape.Tape, label string, maxLen int, safe bool) []byte {
	kind := t.Weighted(label+".kind", 2, 3, 3, 3, 2, 2)
	var n int
	switch t.Weighted(label+".len", 2, 4, 3, 2) {
	case 0:
		n = 0
	case 1:
		n = 1 + t.Draw(label+".n", 64)
	case 2:
		n = 900 + t.Draw(label+".n", 300) // around the 1024 byte short-stream buffer
	default:
		n = 1 + t.Draw(label+".n", maxLen)
	}
	st := t.Sub(label + ".seed")
	var out []byte
	switch kind {
	case 0: // constant
		out = bytes.Repeat([]byte{byte('x')}, n)
	case 1: // text with EOLs
		for len(out) < n {
			w := []string{"hello", " ", "\n", "\r\n", "\r", "BT", "ET", "0 0 m", "(", ")", "\\", "%"}[st.Intn(12)]
			out = append(out, w...)
		}
		out = out[:n]
	case 2: // random bytes
		out = make([]byte, n)
		st.Read(out)
	case 3: // compressible runs
		for len(out) < n {
			c := byte(st.Intn(4))
			k := 1 + st.Intn(300)
			out = append(out, bytes.Repeat([]byte{c}, k)...)
		}
		out = out[:n]
	case 4: // keyword look-alikes (not at line start if safe)
		for len(out) < n+1 {
			w := []string{"endstream", "endobj", "stream", " 1 0 obj", "xendstream", " endstream", "x\nendstream", "\r\nendstream", "\nendobj\n", "data", "\n", "\r", "\n%%EOF\n", "\nstartxref\n12345\n%%EOF\n", "\nxref\n0 1\n", "\ntrailer\n<< /Size 3 >>\n"}[st.Intn(16)]
			out = append(out, w...)
		}
		out = out[:n]
	default: // EOL bytes at the edges
		out = make([]byte, n)
		st.Read(out)
		edges := []string{"\n", "\r", "\r\n", "\n\n", " ", "\n \n"}
		e := edges[st.Intn(len(edges))]
		if len(out) >= len(e) {
			copy(out[len(out)-len(e):], e)
			if st.Intn(2) == 0 {
				copy(out, e)
			}
		}
	}
	if safe {
		out = SafeBody(out)
	}
	return out
}

// SafeBody rewrites a body so that no line (the body itself starts a line,
// after "stream" EOL) begins with something the sequential scanner treats as
// a marker: an object header "N G obj" (excluded by digits at line start) or
// the keywords xref, trailer, startxref, %%EOF.  EOL bytes and line-initial
// "endstream"/"endobj" stay allowed, as the property's quantifier allows them.
// safeExcluded lists line-initial keywords that SafeBody removes besides
// object headers.
var safeExcluded = []string{}

func SafeBody(b []byte) []byte {
	out := append([]byte(nil), b...)
	lineStart := true
	for i := 0; i < len(out); i++ {
		c := out[i]
		if lineStart {
			if c >= '0' && c <= '9' {
				out[i] = '_'
			} else {
				for _, m := range safeExcluded {
					if bytes.HasPrefix(out[i:], []byte(m)) {
						out[i] = '_'
					}
				}
			}
		}
		lineStart = c == '\r' || c == '\n'
	}
	return out
}

// ---------------------------------------------------------------------------
// value model

// Clone makes a deep copy of an object tree built from native types.
func Clone(o pdf.Object) pdf.Object {
	switch x := o.(type) {
	case nil:
		return nil
	case pdf.Array:
		if x == nil {
			return pdf.Array(nil)
		}
		c := make(pdf.Array, len(x))
		for i, v := range x {
			c[i] = Clone(v)
		}
		return c
	case pdf.Dict:
		if x == nil {
			return pdf.Dict(nil)
		}
		c := make(pdf.Dict, len(x))
		for k, v := range x {
			c[k] = Clone(v)
		}
		return c
	case pdf.String:
		if x == nil {
			return pdf.String(nil)
		}
		return pdf.String(append([]byte{}, x...))
	default:
		return o
	}
}

func isNull(o pdf.Object) bool {
	switch x := o.(type) {
	case nil:
		return true
	case pdf.Array:
		return x == nil
	case pdf.Dict:
		return x == nil
	}
	return false
}

// Equal is the semantic equality the property statements grant: a nil
// dictionary entry counts as absent, a nil array or dictionary as null;
// everything else must agree exactly (type and value).
func Equal(a, b pdf.Object) bool {
	return Diff(a, b, "") == ""
}

// Diff returns "" if a and b are Equal and otherwise a description of the
// first difference found.
func Diff(a, b pdf.Object, path string) string {
	if isNull(a) || isNull(b) {
		if isNull(a) && isNull(b) {
			return ""
		}
		return fmt.Sprintf("%s: %s vs %s", path, Show(a), Show(b))
	}
	switch x := a.(type) {
	case pdf.Array:
		y, ok := b.(pdf.Array)
		if !ok {
			return fmt.Sprintf("%s: Array vs %T", path, b)
		}
		if len(x) != len(y) {
			return fmt.Sprintf("%s: array length %d vs %d", path, len(x), len(y))
		}
		for i := range x {
			if d := Diff(x[i], y[i], fmt.Sprintf("%s[%d]", path, i)); d != "" {
				return d
			}
		}
		return ""
	case pdf.Dict:
		y, ok := b.(pdf.Dict)
		if !ok {
			return fmt.Sprintf("%s: Dict vs %T", path, b)
		}
		for _, k := range sortedKeys(x) {
			v := x[k]
			w, has := y[k]
			if isNull(v) && (!has || isNull(w)) {
				continue
			}
			if d := Diff(v, w, path+"/"+string(k)); d != "" {
				return d
			}
		}
		for _, k := range sortedKeys(y) {
			if _, has := x[k]; !has && !isNull(y[k]) {
				return fmt.Sprintf("%s: extra key /%s = %s", path, string(k), Show(y[k]))
			}
		}
		return ""
	case pdf.String:
		y, ok := b.(pdf.String)
		if !ok || !bytes.Equal(x, y) {
			return fmt.Sprintf("%s: %s vs %s", path, Show(a), Show(b))
		}
		return ""
	case pdf.Real:
		y, ok := b.(pdf.Real)
		if !ok || math.Float64bits(float64(x)) != math.Float64bits(float64(y)) {
			// -0 and +0 denote the same PDF number
			if ok && x == 0 && y == 0 {
				return ""
			}
			return fmt.Sprintf("%s: %s vs %s", path, Show(a), Show(b))
		}
		return ""
	case pdf.Integer, pdf.Boolean, pdf.Name, pdf.Reference:
		if a != b {
			return fmt.Sprintf("%s: %s vs %s", path, Show(a), Show(b))
		}
		return ""
	}
	return fmt.Sprintf("%s: unsupported type %T vs %T", path, a, b)
}

func sortedKeys(d pdf.Dict) []pdf.Name {
	ks := make([]pdf.Name, 0, len(d))
	for k := range d {
		ks = append(ks, k)
	}
	sort.Slice(ks, func(i, j int) bool { return ks[i] < ks[j] })
	return ks
}

// Show renders an object for messages (bounded length, deterministic).
func Show(o pdf.Object) string {
	var sb strings.Builder
	show(&sb, o, 0)
	s := sb.String()
	if len(s) > 400 {
		s = s[:400] + "…"
	}
	return s
}

func show(sb *strings.Builder, o pdf.Object, depth int) {
	if sb.Len() > 500 {
		return
	}
	switch x := o.(type) {
	case nil:
		sb.WriteString("null")
	case pdf.Array:
		if x == nil {
			sb.WriteString("nil-array")
			return
		}
		sb.WriteString("[")
		for i, v := range x {
			if i > 0 {
				sb.WriteString(" ")
			}
			show(sb, v, depth+1)
		}
		sb.WriteString("]")
	case pdf.Dict:
		if x == nil {
			sb.WriteString("nil-dict")
			return
		}
		sb.WriteString("<<")
		for _, k := range sortedKeys(x) {
			fmt.Fprintf(sb, "/%q ", string(k))
			show(sb, x[k], depth+1)
			sb.WriteString(" ")
		}
		sb.WriteString(">>")
	case pdf.String:
		fmt.Fprintf(sb, "(%q)", []byte(x))
	case pdf.Name:
		fmt.Fprintf(sb, "/%q", string(x))
	case pdf.Real:
		fmt.Fprintf(sb, "Real(%v)", float64(x))
	case pdf.Integer:
		fmt.Fprintf(sb, "%d", int64(x))
	case pdf.Boolean:
		fmt.Fprintf(sb, "%v", bool(x))
	case pdf.Reference:
		fmt.Fprintf(sb, "%d %d R", x.Number(), x.Generation())
	case *pdf.Stream:
		fmt.Fprintf(sb, "stream(%d)", x.Length())
	default:
		fmt.Fprintf(sb, "%T(%v)", o, o)
	}
}
