package revwriter

import (
	"bytes"
	"compress/zlib"
	"fmt"
	"sort"
	"strings"

	"seehuhn.de/go/pdf"
)

// LengthMode says how a stream declares its /Length.
type LengthMode int

const (
	LenDirect       LengthMode = iota // correct, direct
	LenIndirect                       // correct, through an integer object
	LenMissing                        // no /Length entry
	LenWrong                          // a direct value that is wrong
	LenUnresolvable                   // a reference to a free/absent object or to a non-integer
)

// Stream is a stream object to be written.
type Stream struct {
	DataStart int      // set by the serialiser: absolute offset of the first data byte in the image
	Dict      pdf.Dict // without /Length
	Data      []byte   // raw bytes as they appear in the file
	Mode      LengthMode
	LenRef    pdf.Reference // for LenIndirect / LenUnresolvable
	WrongBy   int           // for LenWrong
}

// Def defines (or redefines) an object in a revision.
type Def struct {
	Ref      pdf.Reference
	Value    pdf.Object // non-stream value
	Stream   *Stream
	InObjStm bool // put into this revision's object stream (needs an xref stream or hybrid section)
}

// Free deletes an object; NextGen is the generation recorded in its free
// entry (the generation to use when the number is re-used).
type Free struct {
	Num     uint32
	NextGen uint16
}

// SectionKind is the kind of cross-reference section a revision ends with.
type SectionKind int

const (
	Table SectionKind = iota
	XRefStream
	Hybrid
)

// Revision is one revision of the document.
type Revision struct {
	Defs  []Def
	Frees []Free // objects deleted in this revision
	Kind  SectionKind
	// table options
	SplitSubsections bool // write each run of consecutive numbers as its own subsection (always needed for gaps)
	SplitAfterZero   bool // write object 0 as a subsection of its own
	EntryEOL         int  // 0: " \n", 1: "\r\n", 2: " \r"
	// xref stream options
	W0Zero     bool   // omit the type field (only honoured if every entry is in use and uncompressed)
	W2Zero     bool   // omit the third field (only honoured if all third fields are 0 and all entries are type 1)
	ExtraW     [3]int // extra width for each field (clamped to 8)
	Compress   bool
	Predictor  int      // 0 none, 10 PNG none, 11 sub, 12 up
	FullIndex  bool     // first revision only: omit /Index and list every number below /Size
	Trailer    pdf.Dict // Root, Info, ID and custom keys (without Size, Prev, XRefStm)
	XRefObjNum uint32   // object number for the xref stream / XRefStm stream
	ObjStmNum  uint32   // object number for the object stream, if any Def is InObjStm
}

type entry struct {
	typ int // 0 free, 1 in use, 2 compressed
	f2  int64
	f3  int64
}

// File accumulates revisions.
type File struct {
	Buf      bytes.Buffer
	hdr      int // offset of the header ('%' of %PDF-)
	size     uint32
	prev     int64             // offset of the previous xref section (relative to the header), 0 = none
	freeList []uint32          // current free list, head first (object 0 excluded)
	freeGen  map[uint32]uint16 // generation recorded in the free entry of each free object
	inUse    map[uint32]bool
	revs     int
	lastTail int
	// room behind the header for FrontImage, and the byte range of the newest
	// cross-reference section (absolute offsets into Buf)
	resStart, resLen int
	secStart, secEnd int
}

// Reserve writes n bytes of white space behind the header.  FrontImage can
// later place a copy of the newest cross-reference section there.
func (f *File) Reserve(n int) {
	f.resStart = f.Buf.Len()
	f.resLen = n
	f.Buf.WriteString(strings.Repeat(" ", n-1) + "\n")
}

// FrontImage returns a copy of the image in which the newest cross-reference
// section (table with trailer, or cross-reference stream object) has been
// copied into the reserved area behind the header and startxref points at the
// copy.  No other byte moves, so every offset stays valid; the copy's /Prev
// now points forward in the file, as the first-page section of a linearised
// file does.  ok is false if nothing was reserved or the section does not fit.
func (f *File) FrontImage() (img []byte, ok bool) {
	n := f.secEnd - f.secStart
	if f.resLen == 0 || n <= 0 || n+2 > f.resLen {
		return nil, false
	}
	img = f.Bytes()
	pos := f.resStart + 1
	copy(img[pos:], img[f.secStart:f.secEnd])
	i := bytes.LastIndex(img, []byte("startxref"))
	if i < 0 {
		return nil, false
	}
	img = append(img[:i:i], fmt.Sprintf("startxref\n%d\n%%%%EOF\n", pos-f.hdr)...)
	return img, true
}

// NewFile starts a file: optional junk, header line, binary comment.
func NewFile(junk []byte, version string, s *Style) *File {
	f := &File{freeGen: map[uint32]uint16{}, inUse: map[uint32]bool{}, size: 1}
	f.Buf.Write(junk)
	f.hdr = f.Buf.Len()
	f.Buf.WriteString("%PDF-" + version + s.EOL())
	f.Buf.WriteString("%\xe2\xe3\xcf\xd3" + s.EOL())
	return f
}

func (f *File) pos() int64 { return int64(f.Buf.Len() - f.hdr) }

// Bytes returns the image so far.
func (f *File) Bytes() []byte { return append([]byte(nil), f.Buf.Bytes()...) }

func encodePNG(data []byte, rowLen, predictor int) []byte {
	var out []byte
	prev := make([]byte, rowLen)
	for p := 0; p < len(data); p += rowLen {
		row := data[p : p+rowLen]
		switch predictor {
		case 10:
			out = append(out, 0)
			out = append(out, row...)
		case 11:
			out = append(out, 1)
			for i := range row {
				var a byte
				if i > 0 {
					a = row[i-1]
				}
				out = append(out, row[i]-a)
			}
		default:
			out = append(out, 2)
			for i := range row {
				out = append(out, row[i]-prev[i])
			}
		}
		prev = row
	}
	return out
}

func widthFor(v int64) int {
	w := 0
	for v > 0 {
		w++
		v >>= 8
	}
	return w
}

// writeObject writes one indirect object and returns its offset.
func (f *File) writeObject(ref pdf.Reference, body string, s *Style) int64 {
	f.Buf.WriteString(s.EOL())
	off := f.pos()
	fmt.Fprintf(&f.Buf, "%d%s%d%sobj%s", ref.Number(), s.WS(), ref.Generation(), s.WS(), s.WS())
	f.Buf.WriteString(body)
	tail := s.WS() + "endobj" + s.EOL()
	f.Buf.WriteString(tail)
	f.lastTail = len(tail)
	return off
}

// streamBody renders dict+stream framing for a stream.
func (f *File) streamBody(st *Stream, s *Style) (body string, dataOff int, ok bool) {
	d := pdf.Dict{}
	for k, v := range st.Dict {
		d[k] = v
	}
	switch st.Mode {
	case LenDirect:
		d["Length"] = pdf.Integer(len(st.Data))
	case LenIndirect, LenUnresolvable:
		d["Length"] = st.LenRef
	case LenWrong:
		d["Length"] = pdf.Integer(len(st.Data) + st.WrongBy)
	}
	dict := s.Object(d)
	startEOL := []string{"\n", "\r\n"}[s.draw("streameol", 2)]
	endEOL := s.EOL()
	tail := endEOL + "endstream"
	var sb bytes.Buffer
	sb.WriteString(dict)
	sb.WriteString(s.OptWS())
	sb.WriteString("stream" + startEOL)
	sb.Write(st.Data)
	sb.WriteString(tail)
	if st.Mode == LenWrong && false {
		all := sb.Bytes()
		dataStart := len(all) - len(tail) - len(st.Data)
		p := dataStart + len(st.Data) + st.WrongBy
		if p < 0 || len(st.Data)+st.WrongBy < 0 {
			return "", 0, false
		}
		rest := append(append([]byte(nil), all...), []byte(" endobj")...)
		for p < len(rest) && isWS(rest[p]) {
			p++
		}
		if p+9 <= len(rest) && string(rest[p:p+9]) == "endstream" {
			return "", 0, false
		}
	}
	return sb.String(), sb.Len() - len(tail) - len(st.Data), true
}

func isWS(c byte) bool {
	return c == 0 || c == 9 || c == 10 || c == 12 || c == 13 || c == 32
}

// Append serialises one revision.  It returns false if the revision could not
// be rendered under the constraints (caller should treat the run as skipped).
func (f *File) Append(rev *Revision, s *Style) bool {
	f.revs++
	entries := map[uint32]*entry{}
	hidden := map[uint32]bool{} // hybrid: numbers listed only in the XRefStm

	bump := func(n uint32) {
		if n+1 > f.size {
			f.size = n + 1
		}
	}
	// objects
	var members []Def
	for _, d := range rev.Defs {
		bump(d.Ref.Number())
		if d.InObjStm && d.Stream == nil && d.Ref.Generation() == 0 && rev.Kind != Table {
			members = append(members, d)
			continue
		}
		var body string
		streamOff := 0
		if d.Stream != nil {
			b, dataOff, ok := f.streamBody(d.Stream, s)
			if !ok {
				return false
			}
			body = b
			streamOff = dataOff
		} else {
			body = s.Object(d.Value)
		}
		off := f.writeObject(d.Ref, body, s)
		if d.Stream != nil {
			d.Stream.DataStart = f.Buf.Len() - f.lastTail - len(body) + streamOff
		}
		entries[d.Ref.Number()] = &entry{1, off, int64(d.Ref.Generation())}
	}
	if len(members) > 0 {
		bump(rev.ObjStmNum)
		var head, data bytes.Buffer
		for _, m := range members {
			fmt.Fprintf(&head, "%d %d%s", m.Ref.Number(), data.Len(), s.WS())
			data.WriteString(s.Object(m.Value))
			data.WriteString(s.WS())
		}
		raw := append(append([]byte(nil), head.Bytes()...), data.Bytes()...)
		dict := pdf.Dict{"Type": pdf.Name("ObjStm"), "N": pdf.Integer(len(members)), "First": pdf.Integer(head.Len())}
		if rev.Compress {
			var zb bytes.Buffer
			zw := zlib.NewWriter(&zb)
			zw.Write(raw)
			zw.Close()
			raw = zb.Bytes()
			dict["Filter"] = pdf.Name("FlateDecode")
		}
		b, _, _ := f.streamBody(&Stream{Dict: dict, Data: raw, Mode: LenDirect}, s)
		off := f.writeObject(pdf.NewReference(rev.ObjStmNum, 0), b, s)
		entries[rev.ObjStmNum] = &entry{1, off, 0}
		for i, m := range members {
			entries[m.Ref.Number()] = &entry{2, int64(rev.ObjStmNum), int64(i)}
			if rev.Kind == Hybrid {
				hidden[m.Ref.Number()] = true
			}
		}
	}

	// free list maintenance: newly freed objects go to the head of the list;
	// re-used objects are unlinked (their predecessor is rewritten)
	changedFree := map[uint32]bool{}
	for _, d := range rev.Defs {
		n := d.Ref.Number()
		for i, x := range f.freeList {
			if x == n {
				f.freeList = append(f.freeList[:i:i], f.freeList[i+1:]...)
				if i == 0 {
					changedFree[0] = true
				} else {
					changedFree[f.freeList[i-1]] = true
				}
				delete(f.freeGen, n)
				break
			}
		}
		f.inUse[n] = true
	}
	for _, fr := range rev.Frees {
		n := fr.Num
		bump(n)
		f.freeGen[n] = fr.NextGen
		f.freeList = append([]uint32{n}, f.freeList...)
		changedFree[n] = true
		changedFree[0] = true
		delete(f.inUse, n)
	}
	if f.revs == 1 {
		changedFree[0] = true
	}
	next := func(n uint32) int64 {
		if n == 0 {
			if len(f.freeList) > 0 {
				return int64(f.freeList[0])
			}
			return 0
		}
		for i, x := range f.freeList {
			if x == n {
				if i+1 < len(f.freeList) {
					return int64(f.freeList[i+1])
				}
				return 0
			}
		}
		return 0
	}
	for n := range changedFree {
		if f.inUse[n] {
			continue // re-used in this very revision
		}
		if n == 0 {
			entries[0] = &entry{0, next(0), 65535}
		} else {
			entries[n] = &entry{0, next(n), int64(f.freeGen[n])}
		}
	}

	// numbers below /Size that have no entry anywhere must be listed as free
	// in the first revision (every number needs an entry)
	if f.revs == 1 {
		for n := uint32(1); n < f.size; n++ {
			if entries[n] == nil && n != rev.XRefObjNum {
				// never defined: an unlinked free entry with generation 65535
				entries[n] = &entry{0, 0, 65535}
			}
		}
	}

	trailer := pdf.Dict{}
	for k, v := range rev.Trailer {
		trailer[k] = v
	}
	if f.prev != 0 {
		trailer["Prev"] = pdf.Integer(f.prev)
	}

	writeStreamSection := func(ents map[uint32]*entry, dict pdf.Dict, fullIndex bool) int64 {
		bump(rev.XRefObjNum)
		off := f.pos() + int64(len("\n")) // provisional; fixed below
		_ = off
		nums := make([]uint32, 0, len(ents)+1)
		for n := range ents {
			nums = append(nums, n)
		}
		nums = append(nums, rev.XRefObjNum)
		sort.Slice(nums, func(i, j int) bool { return nums[i] < nums[j] })
		// the stream's own offset is known only after the EOL written by
		// writeObject; compute it by rendering the EOL first
		eol := s.EOL()
		f.Buf.WriteString(eol)
		self := f.pos()
		ents[rev.XRefObjNum] = &entry{1, self, 0}
		if fullIndex {
			for n := uint32(0); n < f.size; n++ {
				if ents[n] == nil {
					ents[n] = &entry{0, 0, 65535}
					nums = append(nums, n)
				}
			}
			sort.Slice(nums, func(i, j int) bool { return nums[i] < nums[j] })
		}
		allType1, allF3Zero := true, true
		var max2, max3 int64
		for _, n := range nums {
			e := ents[n]
			if e.typ != 1 {
				allType1 = false
			}
			if e.f3 != 0 {
				allF3Zero = false
			}
			if e.f2 > max2 {
				max2 = e.f2
			}
			if e.f3 > max3 {
				max3 = e.f3
			}
		}
		w := [3]int{1, max(widthFor(max2), 1), max(widthFor(max3), 1)}
		for i := range w {
			w[i] = min(w[i]+rev.ExtraW[i], 8)
		}
		if rev.W0Zero && allType1 {
			w[0] = 0
		}
		if rev.W2Zero && allType1 && allF3Zero {
			w[2] = 0
		}
		var index pdf.Array
		var data []byte
		put := func(v int64, width int) {
			for i := width - 1; i >= 0; i-- {
				data = append(data, byte(v>>(8*uint(i))))
			}
		}
		if fullIndex {
			for n := uint32(0); n < f.size; n++ {
				e := ents[n]
				if e == nil {
					e = &entry{0, 0, 65535}
					allType1 = false
				}
				put(int64(e.typ), w[0])
				put(e.f2, w[1])
				put(e.f3, w[2])
			}
			if w[0] == 0 && !allType1 {
				// cannot omit the type field after all; redo with it
				return -1
			}
		} else {
			for i := 0; i < len(nums); {
				j := i
				for j+1 < len(nums) && nums[j+1] == nums[j]+1 {
					j++
				}
				index = append(index, pdf.Integer(nums[i]), pdf.Integer(j-i+1))
				for k := i; k <= j; k++ {
					e := ents[nums[k]]
					put(int64(e.typ), w[0])
					put(e.f2, w[1])
					put(e.f3, w[2])
				}
				i = j + 1
			}
		}
		dict["Type"] = pdf.Name("XRef")
		dict["Size"] = pdf.Integer(f.size)
		dict["W"] = pdf.Array{pdf.Integer(w[0]), pdf.Integer(w[1]), pdf.Integer(w[2])}
		if !fullIndex {
			dict["Index"] = index
		}
		raw := data
		if rev.Compress {
			rowLen := w[0] + w[1] + w[2]
			if rev.Predictor >= 10 {
				raw = encodePNG(raw, rowLen, rev.Predictor)
				dict["DecodeParms"] = pdf.Dict{"Predictor": pdf.Integer(rev.Predictor), "Columns": pdf.Integer(rowLen)}
			}
			var zb bytes.Buffer
			zw := zlib.NewWriter(&zb)
			zw.Write(raw)
			zw.Close()
			raw = zb.Bytes()
			dict["Filter"] = pdf.Name("FlateDecode")
		}
		b, _, _ := f.streamBody(&Stream{Dict: dict, Data: raw, Mode: LenDirect}, s)
		fmt.Fprintf(&f.Buf, "%d%s0%sobj%s", rev.XRefObjNum, s.WS(), s.WS(), s.WS())
		f.Buf.WriteString(b)
		f.Buf.WriteString(s.WS() + "endobj" + s.EOL())
		return self
	}

	writeTable := func(ents map[uint32]*entry, dict pdf.Dict) int64 {
		nums := make([]uint32, 0, len(ents))
		for n := range ents {
			nums = append(nums, n)
		}
		sort.Slice(nums, func(i, j int) bool { return nums[i] < nums[j] })
		f.Buf.WriteString(s.EOL())
		off := f.pos()
		f.Buf.WriteString("xref" + s.EOL())
		eol := []string{" \n", "\r\n", " \r"}[rev.EntryEOL%3]
		for i := 0; i < len(nums); {
			j := i
			for j+1 < len(nums) && nums[j+1] == nums[j]+1 && !(rev.SplitSubsections && (j-i) >= 1) && !(rev.SplitAfterZero && nums[j] == 0) {
				j++
			}
			fmt.Fprintf(&f.Buf, "%d %d%s", nums[i], j-i+1, s.EOL())
			for k := i; k <= j; k++ {
				e := ents[nums[k]]
				c := byte('n')
				if e.typ == 0 {
					c = 'f'
				}
				fmt.Fprintf(&f.Buf, "%010d %05d %c%s", e.f2, e.f3, c, eol)
			}
			i = j + 1
		}
		dict["Size"] = pdf.Integer(f.size)
		f.Buf.WriteString("trailer" + s.WS() + s.Object(dict) + s.EOL())
		return off
	}

	var start int64
	switch rev.Kind {
	case XRefStream:
		// compressed entries and free entries need the type field
		start = writeStreamSection(entries, trailer, rev.FullIndex && f.revs == 1)
		if start < 0 {
			return false
		}
	case Table:
		start = writeTable(entries, trailer)
	case Hybrid:
		// the xref stream part lists the hidden (compressed) objects and
		// itself; everything else goes into the table
		bump(rev.XRefObjNum)
		sents := map[uint32]*entry{}
		tents := map[uint32]*entry{}
		for n, e := range entries {
			if hidden[n] {
				sents[n] = e
			} else {
				tents[n] = e
			}
		}
		sdict := pdf.Dict{}
		stmOff := writeStreamSection(sents, sdict, false)
		if stmOff < 0 {
			return false
		}
		// the XRefStm stream object itself stays hidden as well (it is
		// listed in its own stream only)
		trailer["XRefStm"] = pdf.Integer(stmOff)
		start = writeTable(tents, trailer)
	}
	f.secStart, f.secEnd = int(start)+f.hdr, f.Buf.Len()
	fmt.Fprintf(&f.Buf, "startxref%s%d%s%%%%EOF%s", s.EOL(), start, s.EOL(), s.EOL())
	f.prev = start
	return true
}

// SetFreeGen records the generation a freed object's entry must carry (the
// generation to be used when the number is re-used).
func (f *File) SetFreeGen(n uint32, gen uint16) { f.freeGen[n] = gen }

// Size returns the current /Size.
func (f *File) Size() uint32 { return f.size }
