// Package revwriter is an independent serialiser of PDF revision histories.
// It writes files the library itself cannot produce: incremental updates,
// hybrid-reference files, cross-reference streams with arbitrary /W and
// /Index, object streams, bytes before the header, and every syntactic
// rendering the specification allows (white space kinds, comments, EOLs,
// literal and hex strings, escapes, #-escaped names).  It uses the
// library's value types as its data model but none of its formatting code.
package revwriter

import (
	"bytes"
	"fmt"
	"sort"
	"strconv"

	"seehuhn.de/go/pdf"
	"verif/sim/tape"
)

// Style decides the syntactic rendering.  Plain=true gives one canonical
// rendering (used when the tape has run out, i.e. as the simplest choice).
type Style struct {
	t *tape.Tape
	n int
}

func NewStyle(t *tape.Tape) *Style { return &Style{t: t} }

func (s *Style) draw(label string, n int) int {
	s.n++
	return s.t.Draw("style."+label, n)
}

var wsKinds = []string{" ", "\n", "\r\n", "\r", "\t", "  ", " \n", "\f", "\x00", "%c\n", " % comment (with) <<tokens>> 1 0 obj\r", "\n\n"}

// WS returns white space that separates two tokens.
func (s *Style) WS() string {
	k := s.draw("ws", 24)
	if k >= len(wsKinds) {
		return " "
	}
	return wsKinds[k]
}

// OptWS returns white space that is not needed for separation.
func (s *Style) OptWS() string {
	if s.draw("optws", 3) != 2 {
		return ""
	}
	return s.WS()
}

// EOL returns an end-of-line marker.
func (s *Style) EOL() string {
	return []string{"\n", "\r\n", "\r"}[s.draw("eol", 3)]
}

func isRegular(c byte) bool {
	switch c {
	case 0, 9, 10, 12, 13, 32, '(', ')', '<', '>', '[', ']', '{', '}', '/', '%':
		return false
	}
	return true
}

// Name renders a name.
func (s *Style) Name(n pdf.Name) string {
	var sb bytes.Buffer
	sb.WriteByte('/')
	for i := 0; i < len(n); i++ {
		c := n[i]
		must := c == '#' || !isRegular(c) || c < 33 || c > 126
		if must || s.draw("nameesc", 12) == 11 {
			if s.draw("hexcase", 2) == 0 {
				fmt.Fprintf(&sb, "#%02x", c)
			} else {
				fmt.Fprintf(&sb, "#%02X", c)
			}
		} else {
			sb.WriteByte(c)
		}
	}
	return sb.String()
}

// String renders a string object.
func (s *Style) String(x pdf.String) string {
	if s.draw("strkind", 3) == 2 {
		return s.hexString(x)
	}
	var sb bytes.Buffer
	sb.WriteByte('(')
	// parentheses may stay unescaped only if the whole string is balanced
	balanced := true
	depth := 0
	for _, c := range x {
		if c == '(' {
			depth++
		} else if c == ')' {
			depth--
			if depth < 0 {
				balanced = false
			}
		}
	}
	if depth != 0 {
		balanced = false
	}
	// one decision per string: either all parentheses stay raw (only possible
	// if they are balanced) or all are escaped
	rawParens := balanced && s.draw("paren", 2) == 1
	// afterRawCR: the previous output byte is a raw CR (standing for an LF, or
	// ending a line continuation); a raw LF right after it would be read as
	// the second half of CR LF
	afterRawCR := false
	for i := 0; i < len(x); i++ {
		c := x[i]
		if s.draw("cont", 40) == 39 {
			eol := []string{"\n", "\r\n", "\r"}[s.draw("conteol", 3)]
			sb.WriteString("\\" + eol) // line continuation, ignored
			afterRawCR = eol == "\r"
		}
		wasAfterRawCR := afterRawCR
		afterRawCR = false
		nextIsDigit := i+1 < len(x) && x[i+1] >= '0' && x[i+1] <= '9'
		octal := func() {
			if nextIsDigit || s.draw("oct3", 2) == 0 {
				fmt.Fprintf(&sb, "\\%03o", c)
			} else {
				fmt.Fprintf(&sb, "\\%o", c)
			}
		}
		switch {
		case c == '\\':
			sb.WriteString("\\\\")
		case c == '(' || c == ')':
			if rawParens {
				sb.WriteByte(c)
			} else {
				sb.WriteByte('\\')
				sb.WriteByte(c)
			}
		case c == '\n':
			k := s.draw("lf", 5)
			if wasAfterRawCR && k == 1 {
				k = 0
			}
			switch k {
			case 0:
				sb.WriteString("\\n")
			case 1:
				sb.WriteString("\n") // raw EOL reads as LF
			case 2:
				sb.WriteString("\r\n") // raw CRLF reads as LF too
			case 3:
				sb.WriteString("\r") // and so does a lone raw CR
				afterRawCR = true
			default:
				octal()
			}
		case c == '\r':
			if s.draw("cr", 2) == 0 {
				sb.WriteString("\\r")
			} else {
				octal()
			}
		case c == '\t' && s.draw("tab", 2) == 0:
			sb.WriteString("\\t")
		case c == '\b' && s.draw("bs", 2) == 0:
			sb.WriteString("\\b")
		case c == '\f' && s.draw("ff", 2) == 0:
			sb.WriteString("\\f")
		case c < 32 || c > 126:
			if s.draw("rawbin", 2) == 0 && c != '\r' {
				sb.WriteByte(c)
			} else {
				octal()
			}
		default:
			if s.draw("escplain", 30) == 0 {
				octal()
			} else {
				sb.WriteByte(c)
			}
		}
	}
	sb.WriteByte(')')
	return sb.String()
}

func (s *Style) hexString(x pdf.String) string {
	var sb bytes.Buffer
	sb.WriteByte('<')
	for i, c := range x {
		if s.draw("hexws", 10) == 9 {
			sb.WriteString([]string{" ", "\n", "\r\n", "\t"}[s.draw("hexwsk", 4)])
		}
		h := fmt.Sprintf("%02x", c)
		if s.draw("hexcase", 2) == 0 {
			h = fmt.Sprintf("%02X", c)
		}
		if i == len(x)-1 && c&0x0f == 0 && s.draw("hexodd", 2) == 0 {
			h = h[:1] // a missing final digit is read as 0
		}
		sb.WriteString(h)
	}
	sb.WriteByte('>')
	return sb.String()
}

// Integer renders an integer.
func (s *Style) Integer(x int64) string {
	str := strconv.FormatInt(x, 10)
	switch s.draw("int", 8) {
	case 6:
		if x >= 0 {
			return "+" + str
		}
	case 7:
		if x >= 0 {
			return "00" + str
		}
		return "-00" + str[1:]
	}
	return str
}

// Real renders a real so that it parses back to exactly x.
func (s *Style) Real(x float64) string {
	str := strconv.FormatFloat(x, 'f', -1, 64)
	if !bytes.ContainsRune([]byte(str), '.') {
		str += "."
	}
	switch s.draw("real", 8) {
	case 0:
		str += "0"
	case 1:
		str += "000"
	case 2:
		if str[0] != '-' && str[0] != '.' {
			str = "+" + str
		}
	case 3:
		if len(str) > 2 && str[0] == '0' && str[1] == '.' {
			str = str[1:] // .5
		}
	}
	return str
}

func sortedKeys(d pdf.Dict) []pdf.Name {
	ks := make([]pdf.Name, 0, len(d))
	for k := range d {
		ks = append(ks, k)
	}
	sort.Slice(ks, func(i, j int) bool { return ks[i] < ks[j] })
	return ks
}

// Object renders an object.  needSep reports whether the rendering ends in
// a regular character (so that a following regular token needs white space).
func (s *Style) Object(o pdf.Object) string {
	switch x := o.(type) {
	case nil:
		return "null"
	case pdf.Boolean:
		if x {
			return "true"
		}
		return "false"
	case pdf.Integer:
		return s.Integer(int64(x))
	case pdf.Real:
		return s.Real(float64(x))
	case pdf.Name:
		return s.Name(x)
	case pdf.String:
		return s.String(x)
	case pdf.Reference:
		return fmt.Sprintf("%d%s%d%sR", x.Number(), s.WS(), x.Generation(), s.WS())
	case pdf.Array:
		var sb bytes.Buffer
		sb.WriteString("[" + s.OptWS())
		for i, v := range x {
			if i > 0 {
				sb.WriteString(s.WS())
			}
			sb.WriteString(s.Object(v))
		}
		sb.WriteString(s.OptWS() + "]")
		return sb.String()
	case pdf.Dict:
		var sb bytes.Buffer
		sb.WriteString("<<" + s.OptWS())
		keys := sortedKeys(x)
		// a drawn rotation of the key order
		if len(keys) > 1 {
			r := s.draw("keyrot", len(keys))
			keys = append(keys[r:], keys[:r]...)
		}
		for _, k := range keys {
			sb.WriteString(s.Name(k))
			v := s.Object(x[k])
			// a separator is needed unless the value starts with a delimiter
			if len(v) > 0 && isRegular(v[0]) {
				sb.WriteString(s.WS())
			} else {
				sb.WriteString(s.OptWS())
			}
			sb.WriteString(v)
			sb.WriteString(s.WS())
		}
		sb.WriteString(">>")
		return sb.String()
	}
	panic(fmt.Sprintf("revwriter: cannot render %T", o))
}
