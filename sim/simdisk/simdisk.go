// Package simdisk is the simulated storage: sinks of several kinds for
// pdf.NewWriter and io.ReaderAt handles with selectable (legal) personalities
// for pdf.NewReader, both with scripted fault injection and an operation log.
package simdisk

import (
	"errors"
	"fmt"
	"io"
)

// ErrInjected is the error every injected fault carries.
var ErrInjected = errors.New("simdisk: injected I/O error")

// SinkKind selects which interfaces the sink offers; the Writer type-switches
// on them and takes different code paths.
type SinkKind int

const (
	AppendOnly           SinkKind = iota // io.Writer only: bufio + indirect /Length
	Seekable                             // io.WriteSeeker: seek-back /Length
	ReadWriteSeekable                    // + io.ReadSeeker, io.ReaderAt: Writer.Get works
	SelfFlushing                         // io.Writer + Flush(): library skips its bufio
	SelfFlushingSeekable                 // Flush() + Seek
	NumSinkKinds
)

func (k SinkKind) String() string {
	return [...]string{"AppendOnly", "Seekable", "ReadWriteSeekable", "SelfFlushing", "SelfFlushingSeekable"}[k]
}

// FaultMode says how the failing operation misbehaves.
type FaultMode int

const (
	FailError FaultMode = iota // (0, err)
	FailShort                  // write accepts a strict prefix, returns (n<len, err)
)

// Op is one logged sink operation.
type Op struct {
	Kind string // "write", "seek", "flush"
	N    int    // bytes or offset
}

// Disk is the state of one file.
type Disk struct {
	Data []byte
	pos  int64

	Ops      int // Write and Seek calls so far (the fault index space)
	Writes   int
	Seeks    int
	Flushes  int
	Log      []Op
	KeepLog  bool
	FailAt   int // index into Ops at which the fault fires; -1 = never
	Mode     FaultMode
	Persist  bool // every operation from FailAt on fails
	ShortCut int  // for FailShort: how many bytes are accepted (clamped to len-1)
	Fired    int
	FullAt   int64 // disk full: writes beyond this many bytes fail; 0 = unlimited
}

func NewDisk() *Disk { return &Disk{FailAt: -1} }

func (d *Disk) fault() bool {
	k := d.Ops
	d.Ops++
	if d.FailAt < 0 {
		return false
	}
	if k == d.FailAt || (d.Persist && k > d.FailAt) {
		d.Fired++
		return true
	}
	return false
}

func (d *Disk) write(p []byte) (int, error) {
	d.Writes++
	if d.KeepLog {
		d.Log = append(d.Log, Op{"write", len(p)})
	}
	if d.fault() {
		if d.Mode == FailShort && len(p) > 0 {
			n := d.ShortCut
			if n >= len(p) {
				n = len(p) - 1
			}
			d.put(p[:n])
			return n, ErrInjected
		}
		return 0, ErrInjected
	}
	if d.FullAt > 0 && d.pos+int64(len(p)) > d.FullAt {
		n := int(d.FullAt - d.pos)
		if n < 0 {
			n = 0
		}
		d.put(p[:n])
		d.Fired++
		return n, fmt.Errorf("disk full: %w", ErrInjected)
	}
	d.put(p)
	return len(p), nil
}

func (d *Disk) put(p []byte) {
	end := d.pos + int64(len(p))
	if end > int64(len(d.Data)) {
		if d.pos > int64(len(d.Data)) {
			d.Data = append(d.Data, make([]byte, d.pos-int64(len(d.Data)))...)
		}
		d.Data = append(d.Data[:d.pos], p...)
	} else {
		copy(d.Data[d.pos:], p)
	}
	d.pos = end
}

func (d *Disk) seek(off int64, whence int) (int64, error) {
	d.Seeks++
	if d.KeepLog {
		d.Log = append(d.Log, Op{"seek", int(off)})
	}
	if d.fault() {
		return 0, ErrInjected
	}
	var abs int64
	switch whence {
	case io.SeekStart:
		abs = off
	case io.SeekCurrent:
		abs = d.pos + off
	case io.SeekEnd:
		abs = int64(len(d.Data)) + off
	default:
		return 0, errors.New("simdisk: bad whence")
	}
	if abs < 0 {
		return 0, errors.New("simdisk: negative position")
	}
	d.pos = abs
	return abs, nil
}

func (d *Disk) read(p []byte) (int, error) {
	if d.pos >= int64(len(d.Data)) {
		return 0, io.EOF
	}
	n := copy(p, d.Data[d.pos:])
	d.pos += int64(n)
	return n, nil
}

func (d *Disk) readAt(p []byte, off int64) (int, error) {
	if off >= int64(len(d.Data)) {
		return 0, io.EOF
	}
	n := copy(p, d.Data[off:])
	if n < len(p) {
		return n, io.EOF
	}
	return n, nil
}

func (d *Disk) flush() error {
	d.Flushes++
	if d.KeepLog {
		d.Log = append(d.Log, Op{"flush", 0})
	}
	return nil
}

// The sink types.  Each exposes exactly the method set of its kind.

type appendSink struct{ d *Disk }

func (s appendSink) Write(p []byte) (int, error) { return s.d.write(p) }

type seekSink struct{ d *Disk }

func (s seekSink) Write(p []byte) (int, error)        { return s.d.write(p) }
func (s seekSink) Seek(o int64, w int) (int64, error) { return s.d.seek(o, w) }

type rwSink struct{ d *Disk }

func (s rwSink) Write(p []byte) (int, error)             { return s.d.write(p) }
func (s rwSink) Seek(o int64, w int) (int64, error)      { return s.d.seek(o, w) }
func (s rwSink) Read(p []byte) (int, error)              { return s.d.read(p) }
func (s rwSink) ReadAt(p []byte, off int64) (int, error) { return s.d.readAt(p, off) }

type flushSink struct{ d *Disk }

func (s flushSink) Write(p []byte) (int, error) { return s.d.write(p) }
func (s flushSink) Flush() error                { return s.d.flush() }

type flushSeekSink struct{ d *Disk }

func (s flushSeekSink) Write(p []byte) (int, error)        { return s.d.write(p) }
func (s flushSeekSink) Flush() error                       { return s.d.flush() }
func (s flushSeekSink) Seek(o int64, w int) (int64, error) { return s.d.seek(o, w) }

// Sink returns a handle of the given kind on the disk.
func (d *Disk) Sink(kind SinkKind) io.Writer {
	switch kind {
	case AppendOnly:
		return appendSink{d}
	case Seekable:
		return seekSink{d}
	case ReadWriteSeekable:
		return rwSink{d}
	case SelfFlushing:
		return flushSink{d}
	case SelfFlushingSeekable:
		return flushSeekSink{d}
	}
	panic("bad sink kind")
}

// ---------------------------------------------------------------------------

// ReadOp is one logged ReadAt call.
type ReadOp struct {
	Off int64
	Len int
}

// Handle is an io.ReaderAt over an immutable image.
type Handle struct {
	Data []byte
	// EOFAtEnd: a read that ends exactly at the end of the image returns
	// io.EOF together with the full count (allowed by io.ReaderAt); otherwise
	// it returns nil (what bytes.Reader and usually os.File do).
	EOFAtEnd bool

	Calls   int
	Bytes   int64
	Log     []ReadOp
	KeepLog bool

	// FailFrom >= 0: every call with index >= FailFrom fails.
	// FailOnly >= 0: exactly the call with that index fails.
	FailFrom int
	FailOnly int
	// PartialOnFail: a failing call still delivers a prefix of the data
	// together with the error (allowed: n < len(p) with a non-nil error).
	PartialOnFail bool
	Fired         int
	Err           error

	// Hook, if set, is called at the start of every ReadAt (used as a yield
	// point by the scheduler).
	Hook func(off int64, n int)
	// HookAfter, if set, is called after the data has been copied into the
	// caller's buffer and before ReadAt returns: a caller may be descheduled
	// between receiving its bytes and looking at them.
	HookAfter func(off int64, n int)
}

func NewHandle(data []byte) *Handle {
	return &Handle{Data: data, FailFrom: -1, FailOnly: -1, Err: ErrInjected}
}

func (h *Handle) ReadAt(p []byte, off int64) (int, error) {
	if h.Hook != nil {
		h.Hook(off, len(p))
	}
	k := h.Calls
	h.Calls++
	if h.KeepLog {
		h.Log = append(h.Log, ReadOp{off, len(p)})
	}
	if (h.FailFrom >= 0 && k >= h.FailFrom) || k == h.FailOnly {
		h.Fired++
		if h.PartialOnFail && off < int64(len(h.Data)) && len(p) > 1 {
			n := copy(p[:len(p)/2], h.Data[off:])
			return n, h.Err
		}
		return 0, h.Err
	}
	if off < 0 {
		return 0, errors.New("simdisk: negative offset")
	}
	if off >= int64(len(h.Data)) {
		return 0, io.EOF
	}
	n := copy(p, h.Data[off:])
	h.Bytes += int64(n)
	if h.HookAfter != nil {
		h.HookAfter(off, n)
	}
	if n < len(p) {
		return n, io.EOF
	}
	if h.EOFAtEnd && off+int64(n) == int64(len(h.Data)) {
		return n, io.EOF
	}
	return n, nil
}
