// Package fgen draws filters with parameters and data of admissible shape.
package fgen

import (
	"bytes"
	"fmt"
	"io"

	"seehuhn.de/go/membudget"
	"seehuhn.de/go/pdf"
	"verif/sim/tape"
)

// Case is one drawn filter configuration.
type Case struct {
	Filter   pdf.Filter
	Kind     string // A85, AHx, RL, Flate, LZW, Compress, CCITT
	Desc     string
	Version  pdf.Version
	RowBytes int // data must be a multiple of this (0: any)
	Columns  int // CCITT: pixels per row
	Class    map[string]string
}

var versions = []pdf.Version{pdf.V1_7, pdf.V1_0, pdf.V1_1, pdf.V1_2, pdf.V1_3, pdf.V1_4, pdf.V1_5, pdf.V1_6, pdf.V2_0}

// Draw draws a filter whose Info(version) accepts the parameters; ok is false
// if the drawn parameter set is rejected by validation (not a case).
func Draw(t *tape.Tape, lbl string, allowCCITT bool) (c Case, ok bool) {
	// parameter sets that validation rejects are not cases: draw again
	for try := 0; try < 6; try++ {
		l := lbl
		if try > 0 {
			l = fmt.Sprintf("%s.retry%d", lbl, try)
		}
		if c, ok = draw1(t, l, allowCCITT, false); ok {
			return c, true
		}
	}
	return draw1(t, lbl+".plain", allowCCITT, true)
}

// DrawNoRows is like Draw but never selects a row-based configuration
// (predictor or CCITT), for filters that do not see the caller's data.
func DrawNoRows(t *tape.Tape, lbl string) (c Case, ok bool) {
	for try := 0; try < 6; try++ {
		c, ok = draw1(t, fmt.Sprintf("%s.try%d", lbl, try), false, false)
		if ok && c.RowBytes == 0 {
			return c, true
		}
	}
	return draw1(t, lbl+".plain", false, true)
}

func draw1(t *tape.Tape, lbl string, allowCCITT, plain bool) (c Case, ok bool) {
	c.Version = versions[t.Draw(lbl+".version", len(versions))]
	wCC := 0
	if allowCCITT {
		wCC = 3
	}
	kind := t.Weighted(lbl+".kind", 4, 2, 2, 3, 4, 2, wCC)
	if plain {
		kind = 1 + t.Draw(lbl+".plainkind", 3) // ASCII85, ASCIIHex, RunLength: valid at every version
	}
	drawPred := func() (p pdf.FlatePredictor, colors, bpc, cols int) {
		p = tape.Pick(t, lbl+".pred", pdf.FlatePredictor(0), 1, 2, 10, 11, 12, 13, 14, 15)
		if p <= 1 {
			return
		}
		colors = tape.Pick(t, lbl+".colors", 0, 1, 2, 3, 4, 5, 7, 8, 31, 32, 33, 40, 60, 61, 128, 255, 256)
		bpc = tape.Pick(t, lbl+".bpc", 0, 8, 1, 2, 4, 16)
		cols = tape.Pick(t, lbl+".cols", 0, 1, 2, 3, 5, 7, 8, 9, 16, 17, 31, 64, 100, 255, 256, 257, 1000)
		return
	}
	rowBytes := func(colors, bpc, cols int) int {
		if colors == 0 {
			colors = 1
		}
		if bpc == 0 {
			bpc = 8
		}
		if cols == 0 {
			cols = 1
		}
		return (colors*bpc*cols + 7) / 8
	}
	switch kind {
	case 0:
		p, co, b, cl := drawPred()
		c.Filter = pdf.FilterFlate{Predictor: p, Colors: co, BitsPerComponent: b, Columns: cl}
		c.Kind = "Flate"
		c.Desc = fmt.Sprintf("Flate{P=%d C=%d B=%d Col=%d}", p, co, b, cl)
		if p > 1 {
			c.RowBytes = rowBytes(co, b, cl)
		}
	case 1:
		c.Filter, c.Kind, c.Desc = pdf.FilterASCII85{}, "A85", "ASCII85"
	case 2:
		c.Filter, c.Kind, c.Desc = pdf.FilterASCIIHex{}, "AHx", "ASCIIHex"
	case 3:
		c.Filter, c.Kind, c.Desc = pdf.FilterRunLength{}, "RL", "RunLength"
	case 4:
		p, co, b, cl := drawPred()
		obo := t.Bool(lbl+".offbyone", 1, 2)
		c.Filter = pdf.FilterLZW{Predictor: p, Colors: co, BitsPerComponent: b, Columns: cl, OffByOne: obo}
		c.Kind = "LZW"
		c.Desc = fmt.Sprintf("LZW{P=%d C=%d B=%d Col=%d OffByOne=%v}", p, co, b, cl, obo)
		if p > 1 {
			c.RowBytes = rowBytes(co, b, cl)
		}
	case 5:
		p, co, b, cl := drawPred()
		c.Filter = pdf.FilterCompress{Predictor: p, Colors: co, BitsPerComponent: b, Columns: cl}
		c.Kind = "Compress"
		c.Desc = fmt.Sprintf("Compress{P=%d C=%d B=%d Col=%d}", p, co, b, cl)
		if p > 1 {
			c.RowBytes = rowBytes(co, b, cl)
		}
	case 6:
		f := pdf.FilterCCITTFax{}
		f.K = tape.Pick(t, lbl+".K", -1, 0, 1, 2, 4, -5)
		f.EndOfLine = t.Bool(lbl+".EndOfLine", 1, 3)
		f.EncodedByteAlign = t.Bool(lbl+".ByteAlign", 1, 3)
		f.BlackIs1 = t.Bool(lbl+".BlackIs1", 1, 2)
		f.IgnoreEndOfBlock = t.Bool(lbl+".IgnoreEOB", 1, 3)
		f.Columns = tape.Pick(t, lbl+".Columns", 0, 1, 2, 7, 8, 9, 16, 17, 33, 64, 100, 1728, 2000, 20000, 65536)
		c.Columns = f.Columns
		if c.Columns == 0 {
			c.Columns = 1728
		}
		c.RowBytes = (c.Columns + 7) / 8
		c.Kind = "CCITT"
		// Rows is filled in by the caller once the data is known
		c.Filter = f
		kc := "zero"
		if f.K < 0 {
			kc = "neg"
		} else if f.K > 0 {
			kc = "pos"
		}
		c.Class = map[string]string{"K": kc, "EndOfLine": fmt.Sprint(f.EndOfLine), "ByteAlign": fmt.Sprint(f.EncodedByteAlign), "EndOfBlock": fmt.Sprint(!f.IgnoreEndOfBlock)}
		c.Desc = fmt.Sprintf("CCITT{K=%d EOL=%v Align=%v BlackIs1=%v IgnoreEOB=%v Columns=%d}", f.K, f.EndOfLine, f.EncodedByteAlign, f.BlackIs1, f.IgnoreEndOfBlock, f.Columns)
	}
	name, dict, err := c.Filter.Info(c.Version)
	if err != nil {
		return c, false
	}
	// Info does not look at every range (Colors above 60 with the TIFF
	// predictor, rows above the row-size cap): such a set is accepted by Info
	// and then refused when the encoder is built.  It counts as rejected by
	// validation only if the decoder rebuilt from the dictionary refuses it
	// as well; an encoder that refuses what the decoder accepts stays a case
	// (and fails the check).
	if enc, err := c.Filter.Encode(c.Version, nopSink{}); err != nil {
		f2, err2 := pdf.MakeFilter(name, dict)
		if err2 != nil {
			return c, false
		}
		rc, err3 := f2.Decode(c.Version, bytes.NewReader(nil), membudget.New(1<<30))
		if err3 != nil {
			return c, false
		}
		_, err4 := io.ReadAll(rc)
		rc.Close()
		if err4 != nil {
			return c, false
		}
	} else {
		enc.Close()
	}
	return c, true
}

type nopSink struct{}

func (nopSink) Write(p []byte) (int, error) { return len(p), nil }
func (nopSink) Close() error                { return nil }

// Data draws input of admissible shape for the case.
func Data(t *tape.Tape, lbl string, c *Case, maxLen int) []byte {
	var n int
	unit := c.RowBytes
	if unit == 0 {
		unit = 1
	}
	switch t.Weighted(lbl+".len", 2, 4, 3, 2) {
	case 0:
		n = 0
	case 1:
		n = 1 + t.Draw(lbl+".n", 12)
	case 2:
		// around typical block boundaries
		base := tape.Pick(t, lbl+".base", 4, 5, 64, 127, 128, 129, 255, 256, 257, 511, 512, 513, 4095, 4096, 4097)
		n = base + t.Draw(lbl+".d", 5) - 2
	default:
		n = 1 + t.Draw(lbl+".n", maxLen)
	}
	if n < 0 {
		n = 0
	}
	if c.RowBytes > 0 {
		rows := n
		if unit > 16 {
			rows = n/unit + t.Draw(lbl+".rows", 3)
		} else if rows > 600 {
			rows = 600
		}
		n = rows * unit
		if n > 4*maxLen {
			n = (4 * maxLen / unit) * unit
		}
	}
	st := t.Sub(lbl + ".seed")
	out := make([]byte, n)
	wStripes := 0
	if c.RowBytes > 0 {
		wStripes = 3
	}
	switch t.Weighted(lbl+".shape", 3, 2, 3, 2, 2, wStripes) {
	case 5: // rows: blank rows alternating with busy ones (every byte a transition)
		for r := 0; r+c.RowBytes <= n; r += c.RowBytes {
			if (r/c.RowBytes)%2 == 1 {
				pat := byte(tape.Pick(t, lbl+".stripe", 0x55, 0x33, 0x0f, 0xaa))
				for i := r; i < r+c.RowBytes; i++ {
					out[i] = pat
				}
			}
		}
	case 0: // random
		st.Read(out)
	case 1: // all equal
		b := byte(st.Intn(256))
		for i := range out {
			out[i] = b
		}
	case 2: // runs
		for i := 0; i < n; {
			b := byte(st.Intn(3) * 127)
			k := 1 + st.Intn(300)
			if st.Intn(4) == 0 {
				k = 126 + st.Intn(5)
			}
			for j := 0; j < k && i < n; j++ {
				out[i] = b
				i++
			}
		}
	case 3: // text
		words := []string{"the ", "quick ", "brown ", "fox ", "\n", "0 0 m ", "~>", ">", "z", "\x00\x00\x00\x00", "!!!!!", "uuuuu"}
		buf := bytes.Buffer{}
		for buf.Len() < n {
			buf.WriteString(words[st.Intn(len(words))])
		}
		copy(out, buf.Bytes())
	default: // sparse bits (good for fax)
		for i := range out {
			if st.Intn(6) == 0 {
				out[i] = byte(1 << st.Intn(8))
			}
		}
	}
	if c.Kind == "CCITT" && c.Columns%8 != 0 {
		// padding bits beyond the last column must be zero
		mask := byte(0xff) << (8 - c.Columns%8)
		for r := 0; r+c.RowBytes <= n; r += c.RowBytes {
			out[r+c.RowBytes-1] &= mask
		}
	}
	return out
}
