// Package racecheck is the race sub-check of C18: the same kinds of workload
// as the scheduled check, but with real, freely running goroutines and the
// uninstrumented library, built with -race.  The cooperative scheduler of the
// main check serialises everything and therefore hides data races from the
// race detector by construction; this binary exists to let the detector see
// them.  A report from the detector is a true race (it has no false
// positives), but it is reproduced by re-running the seed, not by a schedule.
package racecheck

import (
	"bytes"
	"fmt"
	"io"
	"os"
	"strconv"
	"sync"
	"sync/atomic"
	"testing"
	"time"

	"seehuhn.de/go/pdf"
	"seehuhn.de/go/pdf/font/cmap"
	"seehuhn.de/go/pdf/font/mapping"
	"verif/sim/props/c18doc"
	"verif/sim/simdisk"
	"verif/sim/tape"
)

type val struct{ serial int }

func TestRaceWorker(t *testing.T) {
	out := os.Getenv("VSIM_OUT")
	if out == "" {
		t.Skip("driven by /verif/bin/check")
	}
	seed, _ := strconv.ParseUint(os.Getenv("VSIM_SEED"), 10, 64)
	worker, _ := strconv.Atoi(os.Getenv("VSIM_WORKER"))
	workers, _ := strconv.Atoi(os.Getenv("VSIM_WORKERS"))
	secs, _ := strconv.Atoi(os.Getenv("VSIM_SECS"))
	if workers == 0 {
		workers = 1
	}
	deadline := time.Now().Add(time.Duration(secs) * time.Second)
	runs, ops := 0, 0
	var mismatch string
	for i := worker; time.Now().Before(deadline) && mismatch == ""; i += workers {
		os.WriteFile(out+".progress", []byte(fmt.Sprint(i)), 0o644)
		tp := tape.New(tape.Mix(seed, tape.HashString("C18race"), uint64(i))).NoRecord()
		n, msg := one(tp)
		ops += n
		runs++
		if msg != "" {
			mismatch = fmt.Sprintf("run %d: %s", i, msg)
		}
	}
	os.WriteFile(out, []byte(fmt.Sprintf(`{"runs":%d,"ops":%d,"mismatch":%q}`, runs, ops, mismatch)), 0o644)
	if mismatch != "" {
		t.Fatal(mismatch)
	}
}

func one(t *tape.Tape) (int, string) {
	d, err := c18doc.Build(t)
	if err != nil {
		return 0, ""
	}
	h := simdisk.NewHandle(d.Image) // no log, no hook: safe for concurrent ReadAt? it counts calls
	r, err := pdf.NewReader(&sleepyReaderAt{data: d.Image}, int64(len(d.Image)), &pdf.ReaderOptions{Password: d.Password})
	_ = h
	if err != nil {
		return 0, "open: " + err.Error()
	}
	xs := []*pdf.Extractor{pdf.NewExtractor(r), pdf.NewExtractor(r)}
	all := append(append([]pdf.Reference(nil), d.Dicts...), d.Chain...)
	nTasks := 2 + t.Draw("tasks", 4)
	type op struct {
		kind, x int
		ref     pdf.Reference
		seed    int
	}
	plans := make([][]op, nTasks)
	for i := range plans {
		for k := 0; k < 2+t.Draw(fmt.Sprintf("n%d", i), 6); k++ {
			l := fmt.Sprintf("t%d.%d", i, k)
			o := op{kind: t.Draw(l+".k", 12), x: t.Draw(l+".x", 2), ref: all[t.Draw(l+".r", len(all))]}
			o.seed = t.Draw(l+".seed", 100)
			if o.kind == 5 {
				o.ref = d.Streams[t.Draw(l+".s", len(d.Streams))]
			}
			plans[i] = append(plans[i], o)
		}
	}
	var mu sync.Mutex
	serial := 0
	seen := map[string]*val{}
	var problem string
	note := func(msg string) {
		mu.Lock()
		if problem == "" {
			problem = msg
		}
		mu.Unlock()
	}
	check := func(key string, v *val) {
		mu.Lock()
		defer mu.Unlock()
		if old, ok := seen[key]; ok && old != v {
			if problem == "" {
				problem = "two different Go values for " + key
			}
		}
		seen[key] = v
	}
	mk := func(pdf.Cursor, pdf.Object, bool) (*val, error) {
		mu.Lock()
		serial++
		v := &val{serial}
		mu.Unlock()
		return v, nil
	}
	var wg sync.WaitGroup
	total := 0
	for i := range plans {
		total += len(plans[i])
		wg.Add(1)
		go func(i int) {
			defer wg.Done()
			for _, o := range plans[i] {
				x := xs[o.x]
				switch o.kind {
				case 0, 1:
					v, err := pdf.Decode(pdf.CursorAt(x, nil), o.ref, mk)
					if err != nil {
						note("Decode: " + err.Error())
					} else {
						check(fmt.Sprintf("x%d/%s", o.x, o.ref), v)
					}
				case 2:
					v, err := pdf.DecodeExclusive(pdf.CursorAt(x, nil), o.ref, mk)
					if err != nil {
						note("DecodeExclusive: " + err.Error())
					} else {
						check(fmt.Sprintf("x%d/%s", o.x, o.ref), v)
					}
				case 3:
					a, _ := pdf.StoreOrLoadPair(x, o.ref, &val{-1}, &struct{ n int }{1})
					check(fmt.Sprintf("x%d/%s", o.x, o.ref), a)
				case 4:
					if _, err := r.Get(o.ref, true); err != nil {
						note("Get: " + err.Error())
					}
				case 5:
					obj, err := r.Get(o.ref, true)
					stm, ok := obj.(*pdf.Stream)
					if err != nil || !ok {
						note(fmt.Sprintf("Get(stream): %v", err))
						continue
					}
					rc, err := pdf.DecodeStream(r, nil, stm)
					if err != nil {
						note("DecodeStream: " + err.Error())
						continue
					}
					data, err := io.ReadAll(rc)
					rc.Close()
					if err != nil || !bytes.Equal(data, d.Bodies[o.ref]) {
						note(fmt.Sprintf("stream %s: %d bytes instead of %d (err %v)", o.ref, len(data), len(d.Bodies[o.ref]), err))
					}
				case 6:
					if d.BadStream != 0 {
						if obj, err := r.Get(d.BadStream, true); err == nil {
							if stm, ok := obj.(*pdf.Stream); ok {
								if rc, err := pdf.DecodeStream(r, nil, stm); err == nil {
									io.ReadAll(rc)
									rc.Close()
								}
							}
						}
					}
				case 8:
					// independent Reader, stream without /Length (recovery path)
					img, ref, body := c18doc.NoLengthFile(o.seed)
					r2, err := pdf.NewReader(bytes.NewReader(img), int64(len(img)), nil)
					if err != nil {
						note("independent file: " + err.Error())
						continue
					}
					var data []byte
					obj, err := r2.Get(ref, true)
					if stm, ok := obj.(*pdf.Stream); ok && err == nil {
						if rc, err2 := pdf.DecodeStream(r2, nil, stm); err2 == nil {
							data, err = io.ReadAll(rc)
							rc.Close()
						} else {
							err = err2
						}
					}
					if err != nil || !bytes.Equal(data, body) {
						note(fmt.Sprintf("independent reader, stream without /Length: %d bytes instead of %d (err %v)", len(data), len(body), err))
					}
				case 10, 11:
					// a JPEG behind FlateDecode, closed after a few bytes: the
					// helper goroutine must be gone before the zlib reader is
					// pooled again - then decode a plain Flate stream
					if d.FlateDCT != 0 {
						if obj, err := r.Get(d.FlateDCT, true); err == nil {
							if stm, ok := obj.(*pdf.Stream); ok {
								if rc, err := pdf.DecodeStream(r, nil, stm); err == nil {
									if o.seed%2 == 1 {
										rc.Read(make([]byte, 1+o.seed))
									}
									rc.Close() // usually while the helper is still reading its input
								}
							}
						}
					}
					sref := d.Streams[o.seed%len(d.Streams)]
					if obj, err := r.Get(sref, true); err == nil {
						if stm, ok := obj.(*pdf.Stream); ok {
							if rc, err := pdf.DecodeStream(r, nil, stm); err == nil {
								data, err := io.ReadAll(rc)
								rc.Close()
								if err != nil || !bytes.Equal(data, d.Bodies[sref]) {
									note(fmt.Sprintf("stream %s after an early-closed Flate+DCT stream: %d bytes instead of %d (err %v)", sref, len(data), len(d.Bodies[sref]), err))
								}
							}
						}
					}
				case 9:
					// independent Reader, object nested too deeply: Get fails;
					// the error must be this caller's own value
					img, refs := c18doc.DeepFile(o.seed)
					r2, err := pdf.NewReader(bytes.NewReader(img), int64(len(img)), nil)
					if err != nil {
						note("independent deep file: " + err.Error())
						continue
					}
					for _, ref := range refs {
						_, e1 := r2.Get(ref, true)
						_, e2 := r2.Get(ref, true)
						if e1 != nil && e2 != nil && e1.Error() != e2.Error() {
							note("two failing Gets of the same object report different errors")
						}
					}
				default:
					cmap.Predefined("Identity-H")
					mapping.GetCIDTextMapping("Adobe", "Japan1")
				}
			}
		}(i)
	}
	wg.Wait()
	return total, problem
}

// sleepyReaderAt serves the image like a slow medium: every few calls take a
// moment, so that helper goroutines are found in the middle of a read.
type sleepyReaderAt struct {
	data []byte
	n    atomic.Int64
}

func (s *sleepyReaderAt) ReadAt(p []byte, off int64) (int, error) {
	if s.n.Add(1)%4 == 0 {
		time.Sleep(50 * time.Microsecond)
	}
	if off >= int64(len(s.data)) {
		return 0, io.EOF
	}
	n := copy(p, s.data[off:])
	if n < len(p) {
		return n, io.EOF
	}
	return n, nil
}
