// Package simio provides delivery schedules for byte streams: writers that
// split what the caller writes into drawn chunk sizes and readers that serve
// reads short, with (0,nil), with data-and-EOF, with an injected error or an
// early close at a drawn call.
package simio

import (
	"errors"
	"io"

	"verif/sim/tape"
)

var ErrInjected = errors.New("simio: injected stream error")

// Sizes is the set chunk sizes are drawn from (plus row-relative ones).
var baseSizes = []int{1 << 30, 1, 2, 3, 5, 7, 64, 511, 512, 513, 1023, 1024, 1025, 4095, 4096, 4097}

// Schedule decides chunk sizes.  It draws one tape value up front and expands
// it with a private stream, so the tape stays short while every boundary is
// still a function of the tape.
type Schedule struct {
	mode  int // 0: all at once, 1: fixed size, 2: varying
	fixed int
	row   int
	st    *tape.Stream
}

// NewSchedule draws a schedule.  row (may be 0) adds row-1,row,row+1 sizes.
func NewSchedule(t *tape.Tape, label string, row int) *Schedule {
	s := &Schedule{row: row}
	s.mode = t.Weighted(label+".mode", 3, 3, 4)
	switch s.mode {
	case 1:
		sizes := append([]int(nil), baseSizes[1:]...)
		if row > 1 {
			sizes = append(sizes, row-1, row, row+1)
		}
		s.fixed = sizes[t.Draw(label+".size", len(sizes))]
	case 2:
		s.st = t.Sub(label + ".seed")
	}
	return s
}

// Next returns the next chunk size (>=1) given the remaining byte count.
func (s *Schedule) Next(remaining int) int {
	var n int
	switch s.mode {
	case 0:
		n = remaining
	case 1:
		n = s.fixed
	default:
		sizes := baseSizes
		k := s.st.Intn(len(sizes) + 3)
		if k < len(sizes) {
			n = sizes[k]
		} else if s.row > 1 {
			n = s.row - 1 + (k - len(sizes))
		} else {
			n = 1 + s.st.Intn(16)
		}
	}
	if n < 1 {
		n = 1
	}
	if n > remaining {
		n = remaining
	}
	return n
}

func (s *Schedule) Describe() map[string]any {
	return map[string]any{"mode": s.mode, "fixed": s.fixed, "row": s.row}
}

// WriteChunked writes p to w in chunks given by the schedule.
func WriteChunked(w io.Writer, p []byte, s *Schedule) error {
	if len(p) == 0 {
		return nil
	}
	for len(p) > 0 {
		n := s.Next(len(p))
		m, err := w.Write(p[:n])
		if err != nil {
			return err
		}
		if m != n {
			return io.ErrShortWrite
		}
		p = p[n:]
	}
	return nil
}

// Reader serves data according to a schedule.
type Reader struct {
	data []byte
	pos  int
	s    *Schedule
	// EOFWithData: the final chunk is returned together with io.EOF.
	EOFWithData bool
	// ZeroReads: occasionally return (0,nil) before delivering data.
	ZeroReads bool
	zeroNext  bool
	// FailAt >= 0: the call with that index returns Err (after delivering
	// nothing).  Sticky.
	FailAt int
	Err    error
	Calls  int
	Fired  int
	Closed bool
	// Hook is called at the start of each Read.
	Hook func()
}

func NewReader(data []byte, s *Schedule) *Reader {
	return &Reader{data: data, s: s, FailAt: -1, Err: ErrInjected}
}

func (r *Reader) Read(p []byte) (int, error) {
	if r.Hook != nil {
		r.Hook()
	}
	k := r.Calls
	r.Calls++
	if r.FailAt >= 0 && k >= r.FailAt {
		r.Fired++
		return 0, r.Err
	}
	if len(p) == 0 {
		return 0, nil
	}
	if r.pos >= len(r.data) {
		return 0, io.EOF
	}
	if r.ZeroReads {
		r.zeroNext = !r.zeroNext
		if r.zeroNext && k%3 == 1 {
			return 0, nil
		}
	}
	n := r.s.Next(len(r.data) - r.pos)
	if n > len(p) {
		n = len(p)
	}
	copy(p, r.data[r.pos:r.pos+n])
	r.pos += n
	if r.pos == len(r.data) && r.EOFWithData {
		return n, io.EOF
	}
	return n, nil
}

func (r *Reader) Close() error { r.Closed = true; return nil }

// Remaining reports how many bytes were not yet delivered.
func (r *Reader) Remaining() int { return len(r.data) - r.pos }

// Drain reads everything from r using buffers of the scheduled sizes.
func Drain(r io.Reader, s *Schedule, limit int) ([]byte, error) {
	var out []byte
	buf := make([]byte, 0, 4096)
	idle := 0
	for {
		n := s.Next(1 << 16)
		if n > 1<<16 {
			n = 1 << 16
		}
		if cap(buf) < n {
			buf = make([]byte, n)
		}
		m, err := r.Read(buf[:n])
		out = append(out, buf[:m]...)
		if err == io.EOF {
			return out, nil
		}
		if err != nil {
			return out, err
		}
		if m == 0 {
			idle++
			if idle > 1000 {
				return out, io.ErrNoProgress
			}
		} else {
			idle = 0
		}
		if len(out) > limit {
			return out, ErrLimit
		}
	}
}

var ErrLimit = errors.New("simio: output limit exceeded")
