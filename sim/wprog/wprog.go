// Package wprog draws and executes write programs against a real pdf.Writer
// on a simulated sink, recording a model of what was handed in.  It is shared
// by C02 (round trip), C03 (strict validation), C19 (sink faults), C20 (crash
// points) and as document source for C05/C18.
package wprog

import (
	"bytes"
	"crypto/rand"
	"fmt"
	"image"
	"image/jpeg"
	"io"
	"sort"
	"sync"
	"time"

	"golang.org/x/text/language"
	"seehuhn.de/go/membudget"
	"seehuhn.de/go/pdf"
	"seehuhn.de/go/xmp"
	"verif/sim/forge"
	"verif/sim/gen"
	"verif/sim/simdisk"
	"verif/sim/simio"
	"verif/sim/tape"
)

// Restrict narrows the configuration space for a property.
type Restrict struct {
	NoEncrypt   bool
	NoObjStm    bool // never call WriteCompressed
	SafeText    bool // no EOLs in strings, safe bodies (C20)
	Sinks       []simdisk.SinkKind
	MaxOps      int
	MaxBody     int
	NoWriterGet bool
	NoMetadata  bool
	SmallValues bool // keep objects small (used by enumeration checks)
	NoImages    bool // no pre-encoded DCT / JBIG2 / CCITTFax streams
	Bulk        bool // now and then a program writes thousands of small objects
	BulkOneIn   int  // how often (default: one program in 150)
	WrongLength bool // now and then OpenStream gets a /Length that disagrees with the data
	// HostileStreams: now and then a stream carries a forged LZW, JPEG or
	// JBIG2 body (hostile, not necessarily decodable; no expectation is
	// recorded for it - for checks that only walk the file)
	HostileStreams bool
	// LongBodies: stream bodies are at least 1024 bytes long (several buffers
	// of the Writer and of any reader)
	LongBodies bool
}

// Config is the drawn configuration.
type Config struct {
	Version pdf.Version
	Human   bool
	Sink    simdisk.SinkKind
	UserPW  string
	OwnerPW string
	GiveID  int // 0: none, 1: one element, 2: two
	Meta    int // document-level XMP metadata: 0 none, 1 ordinary, 2 plaintext
}

func (c Config) String() string {
	enc := "none"
	if c.UserPW != "" || c.OwnerPW != "" {
		enc = fmt.Sprintf("user=%q owner=%q", c.UserPW, c.OwnerPW)
	}
	return fmt.Sprintf("v%s human=%v sink=%s enc=%s id=%d meta=%d", c.Version, c.Human, c.Sink, enc, c.GiveID, c.Meta)
}

// Encrypted reports whether the configuration asks for encryption.
func (c Config) Encrypted() bool { return c.UserPW != "" || c.OwnerPW != "" }

// Expect is the model of one written object.
type Expect struct {
	Obj      pdf.Object // non-stream value (snapshot)
	IsStream bool
	Dict     pdf.Dict // stream dictionary as handed in (snapshot)
	Body     []byte   // decoded stream bytes
	Raw      []byte   // pre-encoded image streams: the body as handed to the Writer
	How      string   // which operation wrote it
	Filters  []string
}

type argCheck struct {
	orig pdf.Object
	snap pdf.Object
	what string
}

// Result is the outcome of executing a program.
type Result struct {
	Cfg       Config
	Written   map[pdf.Reference]*Expect
	Order     []pdf.Reference
	Unwritten []pdf.Reference
	Foreign   []pdf.Reference
	Info      *pdf.Info
	Catalog   *pdf.Catalog // catalog fields that were set (nil: none)
	ID        [][]byte
	PagesRef  pdf.Reference
	Err       error  // first error returned by a Writer call
	ErrOp     string // the operation that returned it
	// ExpectedReject: the error is the required answer to an invalid request
	// (a caller-supplied /Length that disagrees with the data)
	ExpectedReject bool
	Closed         bool
	OpNames        []string
	args           []argCheck
	GetDiffs       []string // Writer.Get results that differed from the model
	Probes         map[string]int
}

// MetaTitle is the Dublin Core title of the document-level XMP metadata.
const MetaTitle = "verif metadata title"

// MetadataTitle extracts the title from a metadata stream ("" if absent).
func MetadataTitle(m *pdf.MetadataStream) string {
	if m == nil || m.Data == nil {
		return ""
	}
	var dc xmp.DublinCore
	if err := m.Data.Get(&dc); err != nil {
		return "error: " + err.Error()
	}
	if dc.Title.IsZero() {
		return "no title"
	}
	return dc.Title.Best(language.Und)
}

var passwords = []string{"", "secret", "a", "pässwörd", "0123456789012345678901234567890123456789", "ünï", "x y"}

var versions = []pdf.Version{pdf.V1_7, pdf.V1_0, pdf.V1_1, pdf.V1_2, pdf.V1_3, pdf.V1_4, pdf.V1_5, pdf.V1_6, pdf.V2_0}

// DrawConfig draws a configuration.
func DrawConfig(t *tape.Tape, r *Restrict) Config {
	var c Config
	c.Version = versions[t.Draw("cfg.version", len(versions))]
	c.Human = t.Bool("cfg.human", 1, 3)
	sinks := r.Sinks
	if len(sinks) == 0 {
		sinks = []simdisk.SinkKind{simdisk.AppendOnly, simdisk.Seekable, simdisk.ReadWriteSeekable, simdisk.SelfFlushing, simdisk.SelfFlushingSeekable}
	}
	c.Sink = sinks[t.Draw("cfg.sink", len(sinks))]
	if !r.NoEncrypt && c.Version >= pdf.V1_1 {
		switch t.Weighted("cfg.enc", 5, 2, 2, 2) {
		case 1:
			c.UserPW = passwords[1+t.Draw("cfg.upw", len(passwords)-1)]
		case 2:
			c.OwnerPW = passwords[1+t.Draw("cfg.opw", len(passwords)-1)]
		case 3:
			c.UserPW = passwords[1+t.Draw("cfg.upw", len(passwords)-1)]
			c.OwnerPW = passwords[1+t.Draw("cfg.opw", len(passwords)-1)]
		}
	}
	if c.Version >= pdf.V1_1 {
		c.GiveID = t.Weighted("cfg.id", 3, 1, 2)
	}
	if c.Version >= pdf.V1_4 && !r.NoMetadata {
		c.Meta = t.Weighted("cfg.meta", 4, 1, 1)
		if c.Meta == 2 && c.Encrypted() && c.Version < pdf.V1_6 {
			c.Meta = 1 // plaintext metadata in an encrypted file needs 1.6
		}
	}
	return c
}

var randMu sync.Mutex

// WithSeededRand runs f with crypto/rand.Reader replaced by a deterministic
// stream.  Runs in one process are sequential, the mutex only documents that.
func WithSeededRand(st *tape.Stream, f func()) {
	randMu.Lock()
	old := rand.Reader
	rand.Reader = st
	defer func() {
		rand.Reader = old
		randMu.Unlock()
	}()
	f()
}

type exec struct {
	t    *tape.Tape
	r    *Restrict
	cfg  Config
	w    *pdf.Writer
	res  *Result
	free []pdf.Reference // allocated, not yet written
	all  []pdf.Reference // everything that may be referenced
	next uint32
	seq  int
}

func (x *exec) fail(op string, err error) bool {
	if err != nil && x.res.Err == nil {
		x.res.Err = err
		x.res.ErrOp = op
	}
	return err != nil
}

func (x *exec) label(s string) string {
	x.seq++
	return fmt.Sprintf("op%d.%s", x.seq, s)
}

func (x *exec) opts() *gen.Opts {
	d := 3
	if x.r.SmallValues {
		d = 2
	}
	return &gen.Opts{Refs: x.all, MaxDepth: d, SafeText: x.r.SafeText}
}

// takeStreamRef is takeRef for stream objects: now and then the stream is
// written under a caller-chosen reference with a non-zero generation.
func (x *exec) takeStreamRef(lbl string) pdf.Reference {
	if x.t.Bool(lbl+".explicit", 1, 8) {
		x.res.Probes["stream under an explicit reference"]++
		return x.explicitRef(lbl + ".x")
	}
	return x.takeRef(lbl)
}

// explicitRef returns an object number beyond what Alloc has handed out,
// possibly with a non-zero generation.
func (x *exec) explicitRef(lbl string) pdf.Reference {
	x.next += 1 + uint32(x.t.Draw(lbl+".gap", 40))
	num := 200 + x.next
	genNo := uint16(0)
	if x.t.Bool(lbl+".gen", 1, 2) {
		genNo = uint16(tape.Pick(x.t, lbl+".genv", 1, 2, 255, 65534, 300))
	}
	// the number must not have been handed out by Alloc already
	probe := x.w.Alloc()
	x.free = append(x.free, probe)
	x.all = append(x.all, probe)
	if num <= probe.Number() {
		num = probe.Number() + 1 + uint32(x.t.Draw(lbl+".gap2", 5))
	}
	ref := pdf.NewReference(num, genNo)
	x.all = append(x.all, ref)
	return ref
}

func (x *exec) takeRef(lbl string) pdf.Reference {
	if len(x.free) > 0 && x.t.Bool(lbl+".usefree", 2, 3) {
		i := x.t.Draw(lbl+".free", len(x.free))
		ref := x.free[i]
		x.free = append(x.free[:i], x.free[i+1:]...)
		return ref
	}
	ref := x.w.Alloc()
	x.all = append(x.all, ref)
	return ref
}

func (x *exec) record(ref pdf.Reference, e *Expect) {
	x.res.Written[ref] = e
	x.res.Order = append(x.res.Order, ref)
}

func (x *exec) snapshot(what string, o pdf.Object) pdf.Object {
	s := gen.Clone(o)
	x.res.args = append(x.res.args, argCheck{o, s, what})
	return s
}

func stripStreamKeys(d pdf.Dict) pdf.Dict {
	for _, k := range []pdf.Name{"Length", "Filter", "DecodeParms", "F", "FFilter", "FDecodeParms", "DL"} {
		delete(d, k)
	}
	return d
}

// Execute draws and runs a program on the given sink.
func Execute(t *tape.Tape, cfg Config, r *Restrict, sink io.Writer) *Result {
	res := &Result{Cfg: cfg, Written: map[pdf.Reference]*Expect{}, Probes: map[string]int{}}
	x := &exec{t: t, r: r, cfg: cfg, res: res}
	rnd := t.Sub("rand")
	WithSeededRand(rnd, func() { x.run(sink) })
	return res
}

func (x *exec) run(sink io.Writer) {
	t, res, cfg := x.t, x.res, x.cfg
	opt := &pdf.WriterOptions{HumanReadable: cfg.Human, UserPassword: cfg.UserPW, OwnerPassword: cfg.OwnerPW}
	if cfg.Encrypted() {
		opt.UserPermissions = pdf.PermAll
	}
	switch cfg.GiveID {
	case 1:
		opt.ID = [][]byte{[]byte("0123456789abcdef")}
	case 2:
		opt.ID = [][]byte{[]byte("0123456789abcdef"), []byte("fedcba9876543210\x00\xff")}
	}
	if cfg.Meta > 0 {
		packet := xmp.NewPacket()
		dc := &xmp.DublinCore{}
		dc.Title.Set(language.Und, MetaTitle)
		if err := packet.Set(dc); err == nil {
			opt.DocumentMetadata = &pdf.MetadataStream{Data: packet, Plaintext: cfg.Meta == 2}
		}
	}
	w, err := pdf.NewWriter(sink, cfg.Version, opt)
	if x.fail("NewWriter", err) {
		return
	}
	x.w = w

	// some references that are never written, and foreign ones
	x.res.Foreign = []pdf.Reference{pdf.NewReference(4000+uint32(t.Draw("foreign", 100)), 0), pdf.NewReference(2, 7)}
	x.all = append(x.all, x.res.Foreign...)

	maxOps := x.r.MaxOps
	if maxOps == 0 {
		maxOps = 24
	}
	nOps := 1 + t.Draw("nops", maxOps)
	if t.Bool("info", 1, 2) {
		x.setInfo()
	}
	bulkAt := -1
	bulkDen := 150
	if x.r.BulkOneIn > 0 {
		bulkDen = x.r.BulkOneIn
	}
	if x.r.Bulk && t.Bool("bulk", 1, bulkDen) {
		// thousands of small objects of irregular size: cross-reference data
		// beyond one buffer (1024 bytes of compressed xref stream and more)
		bulkAt = t.Draw("bulk.at", nOps)
	}
	for i := 0; i < nOps && res.Err == nil; i++ {
		if i == bulkAt {
			x.opBulk()
		}
		x.op()
	}
	if res.Err != nil {
		return
	}

	// minimal page tree so that the default reader mode accepts the file
	pages := w.Alloc()
	res.PagesRef = pages
	pd := pdf.Dict{"Type": pdf.Name("Pages"), "Kids": pdf.Array{}, "Count": pdf.Integer(0)}
	if x.fail("Put(pages)", w.Put(pages, pd)) {
		return
	}
	x.record(pages, &Expect{Obj: gen.Clone(pd), How: "pages"})
	w.GetMeta().Catalog.Pages = pages
	if t.Bool("catalog.fields", 1, 3) {
		cat := w.GetMeta().Catalog
		cat.PageLayout = tape.Pick(t, "catalog.layout", pdf.Name(""), "TwoColumnLeft", "SinglePage")
		cat.PageMode = tape.Pick(t, "catalog.mode", pdf.Name(""), "UseOutlines", "FullScreen")
		if cfg.Version >= pdf.V1_2 && t.Bool("catalog.vp", 1, 2) {
			cat.ViewerPreferences = pdf.Dict{"FitWindow": pdf.Boolean(true), "Direction": pdf.Name("R2L")}
		}
		if cfg.Version >= pdf.V1_4 && t.Bool("catalog.markinfo", 1, 2) {
			cat.MarkInfo = pdf.Dict{"Marked": pdf.Boolean(true)}
		}
		if cfg.Version >= pdf.V1_1 && t.Bool("catalog.uri", 1, 3) {
			cat.URI = pdf.Dict{"Base": pdf.String("http://example.com/(x)")}
		}
		res.Catalog = &pdf.Catalog{PageLayout: cat.PageLayout, PageMode: cat.PageMode, ViewerPreferences: gen.Clone(objOrNil(cat.ViewerPreferences)), MarkInfo: gen.Clone(objOrNil(cat.MarkInfo)), URI: gen.Clone(objOrNil(cat.URI))}
	}
	res.OpNames = append(res.OpNames, "close")
	if x.fail("Close", w.Close()) {
		return
	}
	res.Closed = true
	res.ID = w.GetMeta().ID
	for _, ref := range x.free {
		res.Unwritten = append(res.Unwritten, ref)
	}
}

var infoTexts = []string{"", "Title", "hello world", "Grüße", "日本語", "a(b)c\\d", "x\ny", "\U0001F600 smile", "€uro", "ąę"}

func (x *exec) setInfo() {
	t := x.t
	info := x.w.GetMeta().Info
	info.Title = pdf.TextString(infoTexts[t.Draw("info.title", len(infoTexts))])
	info.Author = pdf.TextString(infoTexts[t.Draw("info.author", len(infoTexts))])
	if t.Bool("info.kw", 1, 3) {
		info.Keywords = pdf.TextString(infoTexts[t.Draw("info.kwv", len(infoTexts))])
	}
	if t.Bool("info.date", 1, 2) {
		sec := int64(t.Draw("info.datev", 2000000000))
		info.CreationDate = pdf.Date(time.Unix(sec, 0).UTC())
	}
	if t.Bool("info.more", 1, 3) {
		info.Subject = pdf.TextString(infoTexts[t.Draw("info.subject", len(infoTexts))])
		info.Creator = pdf.TextString(infoTexts[t.Draw("info.creator", len(infoTexts))])
		info.Producer = pdf.TextString(infoTexts[t.Draw("info.producer", len(infoTexts))])
		info.ModDate = pdf.Date(time.Unix(int64(t.Draw("info.moddate", 2000000000)), 0).UTC())
	}
	if t.Bool("info.custom", 1, 3) {
		info.Custom = map[string]string{"VerifKey": infoTexts[1+t.Draw("info.customv", len(infoTexts)-1)]}
	}
	cp := *info
	x.res.Info = &cp
}

func (x *exec) op() {
	t := x.t
	wObjStm := 2
	if x.r.NoObjStm {
		wObjStm = 0
	}
	wGet := 0
	if x.cfg.Sink == simdisk.ReadWriteSeekable && !x.r.NoWriterGet {
		wGet = 2
	}
	switch t.Weighted(x.label("kind"), 5, 2, 3, wObjStm, 4, wGet, 1) {
	case 0:
		x.opPut()
	case 1:
		x.res.OpNames = append(x.res.OpNames, "alloc")
		ref := x.w.Alloc()
		x.free = append(x.free, ref)
		x.all = append(x.all, ref)
	case 2:
		x.opPutStream()
	case 3:
		x.opCompressed()
	case 4:
		x.opOpenStream()
	case 5:
		x.opWriterGet()
	case 6:
		x.opPutExplicit()
	}
}

func (x *exec) opPut() {
	lbl := x.label("put")
	ref := x.takeRef(lbl)
	var obj pdf.Object
	reuse := false
	if len(x.res.args) > 0 && x.t.Bool(lbl+".reuse", 1, 5) {
		// write a Go value a second time: writing must not have modified it
		a := x.res.args[x.t.Draw(lbl+".reusei", len(x.res.args))]
		if _, isStream := a.orig.(*pdf.Stream); !isStream && a.what != "streamdict" {
			obj = a.orig
			reuse = true
			x.res.Probes["value written twice"]++
		}
	}
	if !reuse {
		obj = gen.TopLevel(x.t, lbl+".obj", x.opts())
		if !x.r.SmallValues && x.t.Bool(lbl+".wide", 1, 40) {
			obj = wideObject(x.t, lbl+".wideobj")
			x.res.Probes["wide object (hundreds of sibling containers)"]++
		}
	}
	snap := x.snapshot("put", obj)
	x.res.OpNames = append(x.res.OpNames, fmt.Sprintf("put %d", ref.Number()))
	if x.fail("Put", x.w.Put(ref, obj)) {
		return
	}
	x.record(ref, &Expect{Obj: snap, How: "put"})
}

// wideObject draws one object with hundreds of sibling arrays or
// dictionaries on one level (a /W array of a CID font, a dictionary with many
// array-valued entries): wide, not deep.
func wideObject(t *tape.Tape, lbl string) pdf.Object {
	n := tape.Pick(t, lbl+".n", 40, 255, 256, 257, 300, 1000)
	leaf := func(i int) pdf.Object {
		switch t.Draw(lbl+".leaf", 3) {
		case 0:
			return pdf.Array{pdf.Integer(500 + i)}
		case 1:
			return pdf.Dict{"V": pdf.Integer(i)}
		}
		return pdf.Array{pdf.Array{}, pdf.Dict{}}
	}
	switch t.Draw(lbl+".shape", 3) {
	case 0:
		a := pdf.Array{}
		for i := 0; i < n; i++ {
			a = append(a, pdf.Integer(i), leaf(i))
		}
		return a
	case 1:
		d := pdf.Dict{}
		for i := 0; i < n; i++ {
			d[pdf.Name(fmt.Sprintf("K%d", i))] = leaf(i)
		}
		return d
	}
	a := pdf.Array{}
	for i := 0; i < n; i++ {
		a = append(a, leaf(i))
	}
	return pdf.Dict{"W": a, "Type": pdf.Name("Wide")}
}

func (x *exec) opBulk() {
	n := tape.Pick(x.t, "bulk.n", 400, 2500, 6000)
	st := x.t.Sub("bulk.rand")
	x.res.OpNames = append(x.res.OpNames, fmt.Sprintf("bulk %d", n))
	x.res.Probes["bulk program"]++
	for i := 0; i < n; i++ {
		ref := x.w.Alloc()
		var obj pdf.Object
		switch st.Intn(3) {
		case 0:
			obj = pdf.Integer(st.Intn(1 << uint(1+st.Intn(30))))
		case 1:
			obj = pdf.String(bytes.Repeat([]byte{'a' + byte(st.Intn(26))}, st.Intn(40)))
		default:
			obj = pdf.Array{pdf.Integer(i), pdf.Name(fmt.Sprintf("N%d", st.Intn(1000)))}
		}
		if x.fail("Put(bulk)", x.w.Put(ref, obj)) {
			return
		}
		x.record(ref, &Expect{Obj: gen.Clone(obj), How: "bulk"})
	}
}

func (x *exec) opPutExplicit() {
	lbl := x.label("putx")
	ref := x.explicitRef(lbl)
	obj := gen.TopLevel(x.t, lbl+".obj", x.opts())
	snap := x.snapshot("put", obj)
	x.res.OpNames = append(x.res.OpNames, fmt.Sprintf("put %d %d", ref.Number(), ref.Generation()))
	if x.fail("Put(explicit)", x.w.Put(ref, obj)) {
		return
	}
	x.res.Probes["explicit object number"]++
	x.record(ref, &Expect{Obj: snap, How: "putx"})
}

func (x *exec) streamDict(lbl string) pdf.Dict {
	d := gen.Dict(x.t, lbl+".dict", x.opts(), 1)
	return stripStreamKeys(d)
}

// body draws a stream body for the program's restrictions.
func (x *exec) body(lbl string) []byte {
	b := gen.Body(x.t, lbl, x.maxBody(), x.r.SafeText)
	if x.r.LongBodies && len(b) < 1024 {
		// extend with safe filler up to a drawn length of at least 1024
		n := 1024 + x.t.Draw(lbl+".long", x.maxBody()-1024+1)
		st := x.t.Sub(lbl + ".filler")
		for len(b) < n {
			b = append(b, 'a'+byte(st.Intn(26)))
		}
	}
	return b
}

func (x *exec) maxBody() int {
	if x.r.MaxBody > 0 {
		return x.r.MaxBody
	}
	return 20000
}

// imageStream draws a pre-encoded image stream: the body is a JPEG, an embedded
// JBIG2 page or Group 4 fax data, the dictionary carries the matching /Filter.
// decoded is what the library's decoder makes of the body in a fault-free
// pass at generation time (the Writer does not touch such bodies; what must
// round-trip is the raw data, and decoding it again must give the same bytes).
func imageStream(t *tape.Tape, lbl string, v pdf.Version) (name pdf.Name, parms pdf.Dict, raw, decoded []byte, ok bool) {
	switch t.Draw(lbl+".kind", 3) {
	case 0:
		w, h := 1+t.Draw(lbl+".w", 48), 1+t.Draw(lbl+".h", 48)
		st := t.Sub(lbl + ".pix")
		var img image.Image
		if t.Bool(lbl+".gray", 1, 2) {
			g := image.NewGray(image.Rect(0, 0, w, h))
			for i := range g.Pix {
				g.Pix[i] = byte(st.Intn(256))
			}
			img = g
		} else {
			c := image.NewRGBA(image.Rect(0, 0, w, h))
			for i := range c.Pix {
				c.Pix[i] = byte(st.Intn(256))
			}
			img = c
		}
		var buf bytes.Buffer
		jpeg.Encode(&buf, img, &jpeg.Options{Quality: 20 + t.Draw(lbl+".q", 80)})
		name, raw = "DCTDecode", buf.Bytes()
	case 1:
		raw, _, _ = forge.ValidJBIG2(t, lbl+".jb")
		name = "JBIG2Decode"
	default:
		cols := 8 * (1 + t.Draw(lbl+".cols", 12))
		rows := 1 + t.Draw(lbl+".rows", 24)
		f := pdf.FilterCCITTFax{K: -1, Columns: cols}
		var buf nopCloserBuf
		enc, err := f.Encode(v, &buf)
		if err != nil {
			return "", nil, nil, nil, false
		}
		data := make([]byte, cols/8*rows)
		st := t.Sub(lbl + ".pix")
		for i := range data {
			if st.Intn(3) == 0 {
				data[i] = byte(st.Intn(256))
			}
		}
		enc.Write(data)
		enc.Close()
		raw = buf.Bytes()
		var err2 error
		name, parms, err2 = f.Info(v)
		if err2 != nil {
			return "", nil, nil, nil, false
		}
	}
	f, err := pdf.MakeFilter(name, parms)
	if err != nil {
		return "", nil, nil, nil, false
	}
	rc, err := f.Decode(v, bytes.NewReader(raw), membudget.New(64<<20))
	if err != nil {
		return "", nil, nil, nil, false
	}
	decoded, err = io.ReadAll(rc)
	rc.Close()
	if err != nil {
		return "", nil, nil, nil, false
	}
	return name, parms, raw, decoded, true
}

type nopCloserBuf struct{ bytes.Buffer }

func (*nopCloserBuf) Close() error { return nil }

func (x *exec) opPutStream() {
	lbl := x.label("putstm")
	ref := x.takeStreamRef(lbl)
	dict := x.streamDict(lbl)
	if x.r.HostileStreams && x.t.Bool(lbl+".hostile", 1, 5) {
		var name pdf.Name
		var raw []byte
		var parms pdf.Dict
		switch x.t.Draw(lbl+".hostile.kind", 3) {
		case 0:
			var ec int
			raw, ec, _ = forge.LZW(x.t, lbl+".lz")
			name, parms = "LZWDecode", pdf.Dict{"EarlyChange": pdf.Integer(ec)}
		case 1:
			raw, _ = forge.JPEG(x.t, lbl+".fj")
			name = "DCTDecode"
		default:
			raw, _, _ = forge.JBIG2(x.t, lbl+".jb")
			name = "JBIG2Decode"
		}
		dict["Filter"] = name
		if parms != nil {
			dict["DecodeParms"] = parms
		}
		x.res.OpNames = append(x.res.OpNames, fmt.Sprintf("puthostile %d %s len=%d", ref.Number(), name, len(raw)))
		if x.fail("Put(hostile stream)", x.w.Put(ref, pdf.NewStream(dict, raw))) {
			return
		}
		x.res.Probes["forged hostile stream ("+string(name)+")"]++
		return
	}
	if !x.r.SafeText && !x.r.NoImages && x.t.Bool(lbl+".image", 1, 5) {
		if name, parms, raw, decoded, ok := imageStream(x.t, lbl+".img", x.cfg.Version); ok {
			dict["Filter"] = name
			if parms != nil {
				dict["DecodeParms"] = parms
			}
			snapDict := gen.Clone(dict).(pdf.Dict)
			stm := pdf.NewStream(dict, raw)
			x.res.args = append(x.res.args, argCheck{dict, snapDict, "streamdict"})
			x.res.OpNames = append(x.res.OpNames, fmt.Sprintf("putimage %d %s len=%d", ref.Number(), name, len(raw)))
			if x.fail("Put(image stream)", x.w.Put(ref, stm)) {
				return
			}
			x.res.Probes["pre-encoded image stream ("+string(name)+")"]++
			x.record(ref, &Expect{IsStream: true, Dict: snapDict, Body: decoded, Raw: raw, How: "putimage", Filters: []string{string(name)}})
			return
		}
	}
	body := x.body(lbl + ".body")
	snapDict := gen.Clone(dict).(pdf.Dict)
	stm := pdf.NewStream(dict, body)
	x.res.args = append(x.res.args, argCheck{dict, snapDict, "streamdict"})
	x.res.OpNames = append(x.res.OpNames, fmt.Sprintf("putstream %d len=%d", ref.Number(), len(body)))
	if x.fail("Put(stream)", x.w.Put(ref, stm)) {
		return
	}
	x.record(ref, &Expect{IsStream: true, Dict: snapDict, Body: append([]byte(nil), body...), How: "putstream"})
}

func (x *exec) opCompressed() {
	lbl := x.label("objstm")
	n := 1 + x.t.Draw(lbl+".n", 5)
	var refs []pdf.Reference
	var objs []pdf.Object
	var snaps []pdf.Object
	for i := 0; i < n; i++ {
		ref := x.takeRef(fmt.Sprintf("%s.r%d", lbl, i))
		if ref.Generation() != 0 {
			continue
		}
		var obj pdf.Object
		for try := 0; ; try++ {
			obj = gen.TopLevel(x.t, fmt.Sprintf("%s.o%d.%d", lbl, i, try), x.opts())
			if _, isRef := obj.(pdf.Reference); !isRef {
				break
			}
		}
		refs = append(refs, ref)
		objs = append(objs, obj)
		snaps = append(snaps, x.snapshot("compressed", obj))
	}
	x.res.OpNames = append(x.res.OpNames, fmt.Sprintf("compressed n=%d", len(refs)))
	if x.r.WrongLength && len(refs) > 0 && x.t.Bool(lbl+".badgen", 1, 12) {
		// an invalid request: object streams hold generation-0 objects only.
		// The Writer has to refuse it (or store the object so that it reads
		// back under the reference it was given)
		i := x.t.Draw(lbl+".badgen.i", len(refs))
		bad := pdf.NewReference(refs[i].Number(), uint16(tape.Pick(x.t, lbl+".badgen.g", 1, 2, 65534)))
		x.free = append(x.free, refs[i])
		refs[i] = bad
		x.all = append(x.all, bad)
		if err := x.w.WriteCompressed(refs, objs...); err != nil {
			x.res.Probes["WriteCompressed with a non-zero generation refused"]++
			x.res.Err, x.res.ErrOp, x.res.ExpectedReject = err, "WriteCompressed (non-zero generation)", true
			return
		}
		x.res.Probes["WriteCompressed with a non-zero generation accepted"]++
	} else if x.fail("WriteCompressed", x.w.WriteCompressed(refs, objs...)) {
		return
	}
	x.res.Probes["WriteCompressed"]++
	for i, ref := range refs {
		x.record(ref, &Expect{Obj: snaps[i], How: "compressed"})
	}
}

// drawFilters draws an encodable filter chain valid for the version; rowBytes
// is the row size the body must be a multiple of (0 = any).
func drawFilters(t *tape.Tape, lbl string, v pdf.Version) (filters []pdf.Filter, names []string, rowBytes int) {
	n := t.Weighted(lbl+".nf", 4, 4, 2, 1)
	for i := 0; i < n; i++ {
		last := i == n-1
		l := fmt.Sprintf("%s.f%d", lbl, i)
		var pred pdf.FlatePredictor
		var colors, bpc, cols int
		drawPred := func() {
			if !last || !t.Bool(l+".pred", 1, 2) {
				return
			}
			pred = tape.Pick(t, l+".predv", pdf.FlatePredictorPNGUp, pdf.FlatePredictorTIFF, pdf.FlatePredictorPNGNone, pdf.FlatePredictorPNGSub,
				pdf.FlatePredictorPNGAverage, pdf.FlatePredictorPNGPaeth, pdf.FlatePredictorPNGOptimum, pdf.FlatePredictorNone)
			if pred == pdf.FlatePredictorNone {
				return
			}
			colors = tape.Pick(t, l+".colors", 0, 1, 3, 4, 2)
			bpc = tape.Pick(t, l+".bpc", 0, 8, 1, 2, 4, 16)
			if bpc == 16 && v < pdf.V1_5 {
				bpc = 8
			}
			cols = tape.Pick(t, l+".cols", 0, 1, 2, 5, 8, 17, 100)
			c, b, k := colors, bpc, cols
			if c == 0 {
				c = 1
			}
			if b == 0 {
				b = 8
			}
			if k == 0 {
				k = 1
			}
			rowBytes = (c*b*k + 7) / 8
		}
		choices := []int{0, 1, 2, 3, 4, 5}
		k := choices[t.Draw(l+".kind", len(choices))]
		if k == 0 && v < pdf.V1_2 {
			k = 4 // Flate needs 1.2
		}
		switch k {
		case 0:
			drawPred()
			filters = append(filters, pdf.FilterFlate{Predictor: pred, Colors: colors, BitsPerComponent: bpc, Columns: cols})
			names = append(names, fmt.Sprintf("Flate(p=%d,c=%d,b=%d,col=%d)", pred, colors, bpc, cols))
		case 1:
			filters = append(filters, pdf.FilterASCII85{})
			names = append(names, "A85")
		case 2:
			filters = append(filters, pdf.FilterASCIIHex{})
			names = append(names, "AHx")
		case 3:
			filters = append(filters, pdf.FilterRunLength{})
			names = append(names, "RL")
		case 4:
			drawPred()
			obo := t.Bool(l+".obo", 1, 2)
			filters = append(filters, pdf.FilterLZW{Predictor: pred, Colors: colors, BitsPerComponent: bpc, Columns: cols, OffByOne: obo})
			names = append(names, fmt.Sprintf("LZW(p=%d,c=%d,b=%d,col=%d,obo=%v)", pred, colors, bpc, cols, obo))
		case 5:
			drawPred()
			filters = append(filters, pdf.FilterCompress{Predictor: pred, Colors: colors, BitsPerComponent: bpc, Columns: cols})
			names = append(names, fmt.Sprintf("Compress(p=%d,c=%d,b=%d,col=%d)", pred, colors, bpc, cols))
		}
	}
	return
}

func (x *exec) opOpenStream() {
	lbl := x.label("open")
	t := x.t
	ref := x.takeStreamRef(lbl)
	dict := x.streamDict(lbl)
	filters, names, rowBytes := drawFilters(t, lbl, x.cfg.Version)
	wrongLen := false
	body := x.body(lbl + ".body")
	if rowBytes > 0 {
		body = body[:len(body)/rowBytes*rowBytes]
	}
	if len(filters) == 0 && !x.cfg.Encrypted() && t.Bool(lbl+".givelen", 1, 3) {
		dict["Length"] = pdf.Integer(len(body))
		x.res.Probes["caller supplied /Length"]++
		if x.r.WrongLength && t.Bool(lbl+".wronglen", 1, 4) {
			// the Writer has to refuse a /Length that disagrees with the data
			// (or correct it): it must not end up in the file
			d := tape.Pick(t, lbl+".wrongby", 1, -1, 7, 100, -100, 1000)
			if len(body)+d >= 0 {
				dict["Length"] = pdf.Integer(len(body) + d)
				wrongLen = true
			}
		}
	}
	snapDict := gen.Clone(dict).(pdf.Dict)
	x.res.args = append(x.res.args, argCheck{dict, gen.Clone(dict), "streamdict"})
	x.res.OpNames = append(x.res.OpNames, fmt.Sprintf("openstream %d len=%d filters=%v", ref.Number(), len(body), names))
	ws, err := x.w.OpenStream(ref, dict, filters...)
	if x.fail("OpenStream", err) {
		return
	}
	sched := simio.NewSchedule(t, lbl+".chunks", rowBytes)
	rest := body
	type deferred struct {
		ref  pdf.Reference
		snap pdf.Object
	}
	var defs []deferred
	type deferredStream struct {
		ref  pdf.Reference
		dict pdf.Dict
		body []byte
	}
	var defStreams []deferredStream
	for len(rest) > 0 {
		n := sched.Next(len(rest))
		m, err := ws.Write(rest[:n])
		if x.fail("stream.Write", err) {
			return
		}
		if m != n {
			x.fail("stream.Write", io.ErrShortWrite)
			return
		}
		rest = rest[n:]
		if len(defs) < 3 && t.Bool(lbl+".defer", 1, 6) {
			// Put while the stream is open: deferred until it closes
			dl := fmt.Sprintf("%s.def%d", lbl, len(defs))
			dref := x.takeRef(dl)
			if t.Bool(dl+".isstream", 1, 4) {
				// a deferred stream object
				sd := x.streamDict(dl)
				sbody := gen.Body(t, dl+".body", 2000, x.r.SafeText)
				snapDict := gen.Clone(sd).(pdf.Dict)
				if x.fail("Put(deferred stream)", x.w.Put(dref, pdf.NewStream(sd, sbody))) {
					return
				}
				defStreams = append(defStreams, deferredStream{dref, snapDict, append([]byte(nil), sbody...)})
				x.res.Probes["stream Put while stream open"]++
				continue
			}
			obj := gen.TopLevel(t, dl+".obj", x.opts())
			snap := x.snapshot("deferred put", obj)
			if x.fail("Put(deferred)", x.w.Put(dref, obj)) {
				return
			}
			defs = append(defs, deferred{dref, snap})
			x.res.Probes["Put while stream open"]++
		}
	}
	if len(body) == 0 && t.Bool(lbl+".defer0", 1, 4) {
		dl := lbl + ".def0"
		dref := x.takeRef(dl)
		obj := gen.TopLevel(t, dl+".obj", x.opts())
		snap := x.snapshot("deferred put", obj)
		if x.fail("Put(deferred)", x.w.Put(dref, obj)) {
			return
		}
		defs = append(defs, deferred{dref, snap})
		x.res.Probes["Put while stream open"]++
	}
	if wrongLen {
		if err := ws.Close(); err != nil {
			x.res.Probes["wrong caller-supplied /Length refused"]++
			x.res.Err, x.res.ErrOp, x.res.ExpectedReject = err, "stream.Close (wrong /Length)", true
			return
		}
		// accepted: then the file must carry the true length (C03 looks)
		x.res.Probes["wrong caller-supplied /Length accepted"]++
	} else if x.fail("stream.Close", ws.Close()) {
		return
	}
	delete(snapDict, "Length")
	x.record(ref, &Expect{IsStream: true, Dict: snapDict, Body: append([]byte(nil), body...), How: "openstream", Filters: names})
	for _, d := range defs {
		x.record(d.ref, &Expect{Obj: d.snap, How: "deferred"})
	}
	for _, d := range defStreams {
		x.record(d.ref, &Expect{IsStream: true, Dict: d.dict, Body: d.body, How: "deferred-stream"})
	}
	if len(filters) > 0 {
		x.res.Probes["stream with filters"]++
	}
	if len(filters) > 1 {
		x.res.Probes["filter chain >= 2"]++
	}
}

func (x *exec) opWriterGet() {
	lbl := x.label("wget")
	if len(x.res.Order) == 0 {
		return
	}
	ref := x.res.Order[x.t.Draw(lbl+".i", len(x.res.Order))]
	exp := x.res.Written[ref]
	x.res.OpNames = append(x.res.OpNames, fmt.Sprintf("writer.get %d", ref.Number()))
	got, err := x.w.Get(ref, true)
	if x.fail("Writer.Get", err) {
		return
	}
	x.res.Probes["Writer.Get"]++
	if exp.IsStream {
		stm, ok := got.(*pdf.Stream)
		if !ok {
			x.res.GetDiffs = append(x.res.GetDiffs, fmt.Sprintf("Writer.Get(%s): expected stream, got %s", ref, gen.Show(got)))
			return
		}
		if d := DictDiff(exp.Dict, stm.Dict); d != "" {
			x.res.GetDiffs = append(x.res.GetDiffs, fmt.Sprintf("Writer.Get(%s): stream dict %s", ref, d))
		}
		return
	}
	if d := gen.Diff(exp.Obj, got, ""); d != "" {
		x.res.GetDiffs = append(x.res.GetDiffs, fmt.Sprintf("Writer.Get(%s): %s", ref, d))
	}
}

func objOrNil(o pdf.Object) pdf.Object {
	if o == nil {
		return nil
	}
	return o
}

// DictDiff compares a stream dictionary modulo the entries that describe the
// serialisation.
func DictDiff(want, got pdf.Dict) string {
	w := gen.Clone(want).(pdf.Dict)
	g := gen.Clone(got).(pdf.Dict)
	for _, k := range []pdf.Name{"Length", "Filter", "DecodeParms"} {
		delete(w, k)
		delete(g, k)
	}
	return gen.Diff(w, g, "")
}

// ArgsModified returns a description of the first argument that no longer
// equals its snapshot ("writing never modifies the caller's objects").
func (r *Result) ArgsModified() string {
	for _, a := range r.args {
		if d := gen.Diff(a.snap, a.orig, ""); d != "" {
			return fmt.Sprintf("argument of %s was modified by the Writer: %s", a.what, d)
		}
	}
	return ""
}

// SortedRefs returns the written references in ascending order.
func (r *Result) SortedRefs() []pdf.Reference {
	refs := make([]pdf.Reference, 0, len(r.Written))
	for ref := range r.Written {
		refs = append(refs, ref)
	}
	sort.Slice(refs, func(i, j int) bool { return refs[i] < refs[j] })
	return refs
}

// Shape is a coarse signature of the program.
func (r *Result) Shape() string {
	var sb bytes.Buffer
	fmt.Fprintf(&sb, "%s|", r.Cfg)
	for _, ref := range r.Order {
		e := r.Written[ref]
		fmt.Fprintf(&sb, "%s%v;", e.How, e.Filters)
	}
	return sb.String()
}
