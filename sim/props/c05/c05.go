// Package c05 checks property C05: opening and walking arbitrary bytes never
// crashes, hangs, leaks or explodes.  Base images written by the library are
// corrupted on the simulated disk (storage faults and structure-aware edits)
// and then walked through every reading API inside a synctest bubble.
package c05

import (
	"bytes"
	"compress/zlib"
	"fmt"
	"io"
	"os"
	"regexp"
	"runtime"
	"sort"
	"strconv"

	"seehuhn.de/go/pdf"
	"seehuhn.de/go/pdf/font"
	"seehuhn.de/go/pdf/font/textextract"
	"seehuhn.de/go/pdf/graphics/extract"
	"seehuhn.de/go/pdf/nametree"
	"seehuhn.de/go/pdf/outline"
	"seehuhn.de/go/pdf/page"
	"seehuhn.de/go/pdf/pagetree"
	"seehuhn.de/go/pdf/reader"
	"verif/sim/core"
	"verif/sim/props/c04"
	"verif/sim/props/c11"
	"verif/sim/richdoc"
	"verif/sim/simdisk"
	"verif/sim/tape"
	"verif/sim/wprog"
)

func init() {
	core.Register(&core.Prop{
		ID:    "C05",
		Level: "exploration",
		Rule: "one case = one base image (60% rich documents built with the high-level packages: 1..3 pages, simple/composite TrueType and standard fonts, Flate and DCT images, outline, name tree, optional encryption, optionally diamond-shaped name trees/outlines and hostile ToUnicode CMaps; C02-style object soups incl. pre-encoded DCT/JBIG2/CCITT streams; revision histories from the independent serialiser) " +
			"x 0..4 corruptions of the stored image (bit flip, byte run overwrite, zeroed sector, misdirected block, duplicated block, truncation, and token-level edits of the numbers after /Length /Prev /Size /W /Index /N /First /Count /Root /Kids /Parent, of startxref, of reference targets - rewiring into cycles -, of /Filter and /DecodeParms values) " +
			"x ReaderErrorHandling mode x read personality; the walker then runs NewReader, SequentialScan+MakeReader, Get of every object number, DecodeStream+bounded drain of every stream, pagetree.Iterator, page.Decode, extract.Font, GlyphNameMapping, reader.ProcessPage, outline and name-tree walks inside a synctest bubble. " +
			"non-trivial = at least one corruption applied and the header survived; distinct = hash of (base description, corruption list, mode).",
		Assumptions: []string{
			"time is simulated: one tick per function entry and loop iteration in every package of the repository (counter inserted by a build overlay, no hook in /repo); ticks outside internal/filter/** and graphics/bitmap (the decoders' share is bounded by C08) <= 24Mi*(1+pages+fonts) + 4096*(len(image)+bytes drained), calibrated on the unchanged tree (peak 13M ticks in 24000 runs); a name-tree iteration is abandoned by the harness only after 2^32 ticks and then reported",
			"termination of loops inside a single library call: wall-clock watchdog with confirmation in a fresh process",
			"memory: runtime.MemStats.TotalAlloc delta <= 64 MiB + 40*len(image) + 16*bytes drained + 3*(sum of StreamBudget(rawLen) over the streams opened); a coarse measured proxy, not an instrumented allocator",
			"goroutines: exact - when the walker returns, every goroutine started inside the bubble must have exited",
		},
		Real:       []string{"seehuhn.de/go/pdf Reader, SequentialScan, MakeReader, xref, scanner, filters, pagetree, page, extract.Font, textextract, reader, outline, nametree (working tree)"},
		Stub:       []string{"stored image with injected corruption (simdisk)", "io.ReaderAt personality"},
		Quick:      core.Budget{Runs: 24000, Secs: 150},
		Thorough:   core.Budget{Runs: 2000000, Secs: 900},
		Run:        Run,
		Corners:    corners,
		WantProbes: []string{"walk time bound evaluated"},
	})
}

var soupRestrict = wprog.Restrict{MaxOps: 10, MaxBody: 3000, NoWriterGet: true, HostileStreams: true}

var keyPat = regexp.MustCompile(`/(Length|Prev|Size|N|First|Count|Columns|Predictor|Colors|BitsPerComponent|Width|Height|Length1|Length2|Length3|Rows|K)[ \r\n]+(-?[0-9]+)`)
var refPat = regexp.MustCompile(`([0-9]+) ([0-9]+) R\b`)
var sxPat = regexp.MustCompile(`startxref[\r\n]+([0-9]+)`)
var arrPat = regexp.MustCompile(`/(W|Index|Kids|MediaBox|Filter|DecodeParms) ?\[[^\]]{0,80}\]`)
var namePat = regexp.MustCompile(`/(Filter|Type|Subtype|Parent|Root|Pages|Kids|Contents|Font|Encoding|FontFile2|FontFile3|FontFile|ToUnicode|DescendantFonts|First|Next|Last|Dests|Names|Outlines) ?(/[A-Za-z0-9]+|[0-9]+ [0-9]+ R)`)

var prevPat = regexp.MustCompile(`/Prev[ \r\n]+([0-9]+)`)
var filterNamePat = regexp.MustCompile(`/Filter ?/([A-Za-z0-9]+)`)

var hostileInts = []string{"0", "1", "-1", "2", "255", "65535", "65536", "1048576", "16777215", "16777216", "2147483647", "2147483648", "4294967296", "9223372036854775807", "-9223372036854775808", "99999999999999999999"}

// corrupt applies n storage faults / structure-aware edits.
// posIn draws a position in [0,n) from a fixed-size range, so that the
// recorded tape value does not depend on the (not exactly reproducible)
// length of the image.
func posIn(t *tape.Tape, label string, n int) int {
	if n <= 0 {
		return 0
	}
	v := t.Draw64(label, 1<<30)
	return int(v * uint64(n) >> 30)
}

func corrupt(t *tape.Tape, img []byte, n int) ([]byte, []string) {
	out := append([]byte(nil), img...)
	var kinds []string
	for i := 0; i < n && len(out) > 0; i++ {
		l := fmt.Sprintf("c%d", i)
		switch t.Weighted(l+".kind", 3, 2, 2, 2, 2, 2, 6, 5, 2, 3, 3, 3, 2, 3, 3, 2) {
		case 15: // the number in an object header "N G obj" at the edges of the number space
			ms := objPat.FindAllSubmatchIndex(out, -1)
			if len(ms) == 0 {
				continue
			}
			m := ms[posIn(t, l+".m", len(ms))]
			repl := tape.Pick(t, l+".num", "16777215", "16777216", "16777217", "2147483647", "2147483648", "4294967295", "4294967296", "0", "99999999999999999999")
			out = append(out[:m[2]:m[2]], append([]byte(repl), out[m[3]:]...)...)
			kinds = append(kinds, "object-number edit")
		case 14: // token-level damage to an indirect reference "N G R"
			ms := refTokenPat.FindAllSubmatchIndex(out, -1)
			if len(ms) == 0 {
				continue
			}
			m := ms[posIn(t, l+".m", len(ms))]
			var repl string
			switch t.Draw(l+".edit", 5) {
			case 0: // object number lost
				repl = string(out[m[4]:m[5]]) + " R"
			case 1: // generation lost
				repl = string(out[m[2]:m[3]]) + " R"
			case 2: // keyword doubled
				repl = string(out[m[0]:m[1]]) + " R"
			case 3: // keyword lost
				repl = string(out[m[2]:m[3]]) + " " + string(out[m[4]:m[5]])
			default: // a second, incomplete reference behind it
				repl = string(out[m[0]:m[1]]) + " 0 R"
			}
			out = append(out[:m[0]:m[0]], append([]byte(repl), out[m[1]:]...)...)
			kinds = append(kinds, "reference-token edit")
		case 0:
			p := posIn(t, l+".pos", len(out))
			out[p] ^= 1 << t.Draw(l+".bit", 8)
			kinds = append(kinds, fmt.Sprintf("bitflip@%d", p))
		case 1:
			p := posIn(t, l+".pos", len(out))
			k := 1 + t.Draw(l+".len", 64)
			b := byte(tape.Pick(t, l+".fill", 0, 0xff, 0x20, 0x30, 0x0a))
			for j := p; j < p+k && j < len(out); j++ {
				out[j] = b
			}
			kinds = append(kinds, fmt.Sprintf("overwrite@%d+%d", p, k))
		case 2: // zeroed sector (lost write)
			p := (posIn(t, l+".pos", len(out)) &^ 511)
			for j := p; j < p+512 && j < len(out); j++ {
				out[j] = 0
			}
			kinds = append(kinds, fmt.Sprintf("zero-sector@%d", p))
		case 3: // misdirected block: a block lands somewhere else
			a := posIn(t, l+".a", len(out))
			b := posIn(t, l+".b", len(out))
			k := 1 + t.Draw(l+".k", 512)
			if a+k > len(out) {
				k = len(out) - a
			}
			if b+k > len(out) {
				k = len(out) - b
			}
			copy(out[b:b+k], append([]byte(nil), out[a:a+k]...))
			kinds = append(kinds, fmt.Sprintf("misdirected %d->%d+%d", a, b, k))
		case 4: // duplicated block inserted
			a := posIn(t, l+".a", len(out))
			k := 1 + t.Draw(l+".k", 300)
			if a+k > len(out) {
				k = len(out) - a
			}
			b := posIn(t, l+".b", len(out))
			seg := append([]byte(nil), out[a:a+k]...)
			out = append(out[:b:b], append(seg, out[b:]...)...)
			kinds = append(kinds, fmt.Sprintf("duplicate %d+%d at %d", a, k, b))
		case 5: // torn tail
			cut := posIn(t, l+".cut", len(out)+1)
			out = out[:cut]
			kinds = append(kinds, fmt.Sprintf("truncate@%d", cut))
		case 6: // number after a structural key
			ms := keyPat.FindAllSubmatchIndex(out, -1)
			if len(ms) == 0 {
				continue
			}
			m := ms[posIn(t, l+".m", len(ms))]
			repl := hostileInts[t.Draw(l+".v", len(hostileInts))]
			key := string(out[m[2]:m[3]])
			out = append(out[:m[4]:m[4]], append([]byte(repl), out[m[5]:]...)...)
			kinds = append(kinds, fmt.Sprintf("/%s -> %s", key, repl))
		case 7: // reference rewiring
			ms := refPat.FindAllSubmatchIndex(out, -1)
			if len(ms) == 0 {
				continue
			}
			m := ms[posIn(t, l+".m", len(ms))]
			src := ms[posIn(t, l+".src", len(ms))]
			target := string(out[src[2]:src[3]])
			if t.Bool(l+".rand", 1, 4) {
				target = strconv.Itoa(t.Draw(l+".num", 40))
			}
			old := string(out[m[2]:m[3]])
			out = append(out[:m[2]:m[2]], append([]byte(target), out[m[3]:]...)...)
			kinds = append(kinds, fmt.Sprintf("ref %s -> %s", old, target))
		case 8: // startxref
			m := sxPat.FindSubmatchIndex(out)
			if m == nil {
				continue
			}
			repl := hostileInts[t.Draw(l+".v", len(hostileInts))]
			if t.Bool(l+".near", 1, 2) {
				v, _ := strconv.Atoi(string(out[m[2]:m[3]]))
				repl = strconv.Itoa(v + t.Draw(l+".d", 41) - 20)
			}
			out = append(out[:m[2]:m[2]], append([]byte(repl), out[m[3]:]...)...)
			kinds = append(kinds, "startxref -> "+repl)
		case 9: // array-valued structural entries
			ms := arrPat.FindAllIndex(out, -1)
			if len(ms) == 0 {
				continue
			}
			m := ms[posIn(t, l+".m", len(ms))]
			repls := []string{"/W [0 0 0]", "/W [8 8 8]", "/W [1 0 9]", "/Index [0 99999999]", "/Index [5 -1]", "/Kids []", "/Kids [1 0 R 1 0 R]", "/Kids 5", "/MediaBox [0 0 1e300 -5]",
				"/Filter [/FlateDecode /FlateDecode /FlateDecode /FlateDecode /FlateDecode /FlateDecode /FlateDecode /FlateDecode /FlateDecode]", "/Filter [/DCTDecode /FlateDecode]", "/DecodeParms [7 /X]", "/Filter [1 0 R]"}
			repl := repls[t.Draw(l+".v", len(repls))]
			out = append(out[:m[0]:m[0]], append([]byte(repl), out[m[1]:]...)...)
			kinds = append(kinds, "array -> "+repl)
		case 12: // bytes in front of the header (all offsets become relative)
			k := 1 + t.Draw(l+".junk", 300)
			junk := bytes.Repeat([]byte{byte(tape.Pick(t, l+".junkbyte", 'x', ' ', '\n', 0))}, k)
			out = append(junk, out...)
			kinds = append(kinds, fmt.Sprintf("prepend %d", k))
		case 13: // /Prev or startxref rewired to another cross-reference section
			var offsets []string
			for _, m := range sxPat.FindAllSubmatch(out, -1) {
				offsets = append(offsets, string(m[1]))
			}
			for _, m := range prevPat.FindAllSubmatch(out, -1) {
				offsets = append(offsets, string(m[1]))
			}
			ms := prevPat.FindAllSubmatchIndex(out, -1)
			if len(ms) == 0 {
				// no /Prev yet: add one to the last trailer dictionary
				i := bytes.LastIndex(out, []byte("/Size"))
				if i < 0 || len(offsets) == 0 {
					continue
				}
				ins := "/Prev " + offsets[posIn(t, l+".off", len(offsets))] + " "
				out = append(out[:i:i], append([]byte(ins), out[i:]...)...)
				kinds = append(kinds, "add "+ins)
				continue
			}
			m := ms[posIn(t, l+".m", len(ms))]
			repl := offsets[posIn(t, l+".off", len(offsets))]
			out = append(out[:m[2]:m[2]], append([]byte(repl), out[m[3]:]...)...)
			kinds = append(kinds, "/Prev rewired")
		case 11: // a single filter becomes a chain
			ms := filterNamePat.FindAllSubmatchIndex(out, -1)
			if len(ms) == 0 {
				continue
			}
			m := ms[posIn(t, l+".m", len(ms))]
			name := string(out[m[2]:m[3]])
			extra := tape.Pick(t, l+".extra", "ASCIIHexDecode", "LZWDecode", "FlateDecode", "RunLengthDecode", "ASCII85Decode", "DCTDecode", "CCITTFaxDecode", "NoSuchFilter")
			repl := fmt.Sprintf("/Filter [/%s /%s]", name, extra)
			if t.Bool(l+".front", 1, 3) {
				repl = fmt.Sprintf("/Filter [/%s /%s]", extra, name)
			}
			out = append(out[:m[0]:m[0]], append([]byte(repl), out[m[1]:]...)...)
			kinds = append(kinds, "filter -> "+repl)
		default: // name / reference valued structural entries swapped
			ms := namePat.FindAllSubmatchIndex(out, -1)
			if len(ms) < 2 {
				continue
			}
			m := ms[posIn(t, l+".m", len(ms))]
			src := ms[posIn(t, l+".src", len(ms))]
			val := append([]byte(nil), out[src[4]:src[5]]...)
			if t.Bool(l+".odd", 1, 5) {
				val = []byte(tape.Pick(t, l+".oddv", "/DCTDecode", "/JBIG2Decode", "/CCITTFaxDecode", "/Crypt", "null", "true", "[]", "<<>>", "(x)"))
			}
			key := string(out[m[2]:m[3]])
			out = append(out[:m[4]:m[4]], append(val, out[m[5]:]...)...)
			kinds = append(kinds, fmt.Sprintf("/%s -> %s", key, val))
		}
	}
	return out, kinds
}

// hostileXRef assembles a small file whose cross-reference stream declares
// many /Index subsections over a body of zeros that compresses to almost
// nothing: each subsection is modest, their sum is not.
func hostileXRef(t *tape.Tape) ([]byte, string) {
	var b bytes.Buffer
	var offs [4]int
	b.WriteString("%PDF-1.7\n%\xe2\xe3\xcf\xd3\n")
	offs[1] = b.Len()
	b.WriteString("1 0 obj\n<< /Type /Catalog /Pages 2 0 R >>\nendobj\n")
	offs[2] = b.Len()
	b.WriteString("2 0 obj\n<< /Type /Pages /Kids [] /Count 0 >>\nendobj\n")
	offs[3] = b.Len()
	nsub := tape.Pick(t, "hx.nsub", 1, 2, 16, 128, 512)
	subSize := tape.Pick(t, "hx.subsize", 100, 1000, 8192, 65536)
	overlap := t.Bool("hx.overlap", 1, 4)
	// field widths: the narrow layout, or one wide enough for 32-bit values
	wide := t.Bool("hx.wide", 1, 2)
	w2, w3 := 2, 1
	if wide {
		w2, w3 = 4, 2
	}
	entry := func(typ byte, f2 uint64, f3 uint64) []byte {
		out := []byte{typ}
		for i := w2 - 1; i >= 0; i-- {
			out = append(out, byte(f2>>(8*uint(i))))
		}
		for i := w3 - 1; i >= 0; i-- {
			out = append(out, byte(f3>>(8*uint(i))))
		}
		return out
	}
	data := entry(0, 0, 255)
	for i := 1; i <= 3; i++ {
		data = append(data, entry(1, uint64(offs[i]), 0)...)
	}
	nFirst := 4
	if t.Bool("hx.boundary", 1, 2) {
		// a few entries with values at the edges of what the fields can hold:
		// compressed objects in container 2^24-1, 2^24, 2^24+1, 2^32-1, offsets
		// beyond the file, unknown entry types
		for i := 0; i < 1+t.Draw("hx.nboundary", 5); i++ {
			l := fmt.Sprintf("hx.b%d", i)
			typ := byte(tape.Pick(t, l+".type", 2, 2, 2, 1, 0, 3, 255))
			f2 := tape.Pick(t, l+".f2", uint64(1<<24), 1<<24-1, 1<<24+1, 1<<32-1, 1<<31, 3, 0, 65535)
			f3 := tape.Pick(t, l+".f3", uint64(0), 1, 255, 65535)
			data = append(data, entry(typ, f2, f3)...)
			nFirst++
		}
	}
	index := fmt.Sprintf("0 %d", nFirst)
	next := 1000
	for i := 0; i < nsub; i++ {
		index += fmt.Sprintf(" %d %d", next, subSize)
		if !overlap {
			next += subSize + t.Draw("hx.gap", 3)
		}
	}
	data = append(data, make([]byte, (1+w2+w3)*nsub*subSize)...)
	if t.Bool("hx.short", 1, 4) {
		data = data[:16+len(data)/3] // declares more than it delivers
	}
	var zb bytes.Buffer
	zw := zlib.NewWriter(&zb)
	zw.Write(data)
	zw.Close()
	size := next + subSize + 1
	fmt.Fprintf(&b, "3 0 obj\n<< /Type /XRef /Size %d /W [1 %d %d] /Index [%s] /Root 1 0 R /Filter /FlateDecode /Length %d >>\nstream\n", size, w2, w3, index, zb.Len())
	b.Write(zb.Bytes())
	b.WriteString("\nendstream\nendobj\n")
	fmt.Fprintf(&b, "startxref\n%d\n%%%%EOF\n", offs[3])
	return b.Bytes(), fmt.Sprintf("hostile xref stream: %d subsections of %d entries (overlap %v)", nsub, subSize, overlap)
}

func Run(e *core.Env) {
	t := e.T
	var img []byte
	var desc, password string
	baseKind := t.Weighted("base.kind", 10, 6, 4, 2, 1)
	if baseKind == 3 {
		var ok bool
		img, _, ok = c11.Image(t)
		if !ok {
			e.Skip("graph not renderable")
			return
		}
		desc = "hand-serialised object graph"
	} else if baseKind == 4 {
		img, desc = hostileXRef(t)
	} else if baseKind == 2 {
		var ok bool
		img, desc, ok = c04.Image(t)
		if !ok {
			e.Skip("history not renderable")
			return
		}
	} else if baseKind == 0 {
		var info *richdoc.Info
		var err error
		img, info, err = richdoc.Build(t)
		if err != nil {
			e.Skip("rich document rejected: " + err.Error())
			return
		}
		desc, password = info.Desc, info.Password
	} else {
		cfg := wprog.DrawConfig(t, &soupRestrict)
		disk := simdisk.NewDisk()
		res := wprog.Execute(t, cfg, &soupRestrict, disk.Sink(cfg.Sink))
		if res.Err != nil {
			e.Skip("writer rejected " + res.ErrOp)
			return
		}
		img = disk.Data
		desc = "soup " + cfg.String()
		password = cfg.UserPW
		if password == "" {
			password = cfg.OwnerPW
		}
	}
	n := t.Weighted("ncorrupt", 1, 4, 3, 2, 1)
	cimg, kinds := corrupt(t, img, n)
	mode := pdf.ReaderErrorHandling(t.Draw("mode", 3))
	eofAtEnd := t.Bool("eofAtEnd", 1, 2)
	e.Note("base", desc)
	e.Note("image", fmt.Sprintf("%d bytes (%d before corruption)", len(cimg), len(img)))
	e.Note("corruption", kinds)
	e.Note("mode", int(mode))
	var kindNames []string
	for _, k := range kinds {
		kindNames = append(kindNames, faultKind(k))
	}
	e.Sig(desc, kindNames, int(mode))
	// the library's output bytes are not exactly reproducible (Go map order
	// inside the writer), so the corrupted image travels with the replay file
	if given, ok := e.Given("image"); ok {
		cimg = given
	}
	e.Attach("image", cimg)
	if len(kinds) > 0 && bytes.Contains(cimg[:min(len(cimg), 1100)], []byte("%PDF-")) {
		e.Nontrivial()
	}
	for _, k := range kinds {
		e.Fault(faultKind(k))
	}
	Walk(e, cimg, mode, password, eofAtEnd)
}

func faultKind(k string) string {
	for i := 0; i < len(k); i++ {
		if k[i] == '@' || k[i] == ' ' {
			return k[:i]
		}
	}
	return k
}

type stats struct {
	drained int64
	budgets int64
	gets    int
	streams int
	pages   int
	fonts   int
	opened  bool
	seqOK   bool
	capped  bool
	runaway bool // an iteration had to be abandoned by the harness
}

// Walk runs every reading API over the image inside a bubble and applies the
// oracles.
func Walk(e *core.Env, img []byte, mode pdf.ReaderErrorHandling, password string, eofAtEnd bool) {
	var st stats
	var ms0, ms1 runtime.MemStats
	runtime.ReadMemStats(&ms0)
	work0 := core.WorkNow()
	filt0 := decoderTicks()
	var pkg0 map[string]int64
	if os.Getenv("VSIM_CALIB") != "" {
		pkg0 = core.WorkByPackage()
	}
	leaked := e.InBubble(func() {
		walk(img, mode, password, eofAtEnd, &st)
	})
	ticks := core.WorkNow() - work0
	filterTicks := decoderTicks() - filt0
	runtime.ReadMemStats(&ms1)
	if core.WorkActive() {
		calib(ticks, filterTicks, int64(len(img)), &st, pkg0)
		// Simulated time outside the stream decoders (their share is C08's
		// business and scales with the per-stream budgets): parsing, xref
		// handling, page tree, fonts, CMaps, name trees, outlines.  The bound is
		// affine in the input and in what was decoded; the calibration on the
		// unchanged tree (24 000 runs) peaked at 13 M ticks, a third of which is
		// the fixed cost of one composite font's CMap and code-space tables.
		rest := ticks - filterTicks
		bound := int64(24<<20)*int64(1+st.fonts+st.pages) + 4096*(int64(len(img))+st.drained)
		e.Probe("walk time bound evaluated")
		e.ProbeN("measured: simulated time of the walks (thousands of work ticks)", int(ticks/1000))
		switch {
		case rest > bound/2:
			e.Probe("walk time above 50% of the bound")
		case rest > bound/4:
			e.Probe("walk time above 25% of the bound")
		}
		if rest > bound && !st.runaway {
			e.Fail("work", map[string]string{"where": "walk"}, "%d work ticks outside the stream decoders for a %d byte image (%d bytes drained, %d pages, %d fonts); bound %d: not proportional to the input", rest, len(img), st.drained, st.pages, st.fonts, bound)
			return
		}
	}
	e.Steps(st.gets + st.streams + st.pages)
	if st.opened {
		e.Probe("NewReader succeeded")
	}
	if st.seqOK {
		e.Probe("SequentialScan+MakeReader succeeded")
	}
	if st.pages > 0 {
		e.Probe("pages walked")
	}
	if st.fonts > 0 {
		e.Probe("fonts extracted")
	}
	if st.capped {
		e.Probe("drain cap reached")
	}
	if st.runaway {
		e.Fail("work", map[string]string{"where": "name tree iteration"}, "iterating the /Dests name tree of a %d byte image did not end by itself (abandoned after 2^32 work ticks)", len(img))
		return
	}
	if leaked {
		e.Fail("goroutine-leak", nil, "a goroutine is still blocked after the walk returned and all readers were closed")
		return
	}
	alloc := int64(ms1.TotalAlloc - ms0.TotalAlloc)
	bound := int64(64<<20) + 40*int64(len(img)) + 16*st.drained + 3*st.budgets
	if alloc > bound {
		e.Fail("allocation", nil, "TotalAlloc grew by %d MiB for a %d byte image (%d bytes drained, %d streams); bound %d MiB", alloc>>20, len(img), st.drained, st.streams, bound>>20)
	}
}

var refTokenPat = regexp.MustCompile(`([0-9]{1,7}) ([0-9]{1,5}) R\b`)

var objPat = regexp.MustCompile(`([0-9]{1,8})[ \t]+([0-9]{1,5})[ \t]+obj`)

func walk(img []byte, mode pdf.ReaderErrorHandling, password string, eofAtEnd bool, st *stats) {
	opt := &pdf.ReaderOptions{ErrorHandling: mode, Password: password}
	// candidate references: every "N G obj" in the image plus the low numbers
	refs := map[pdf.Reference]bool{}
	for _, m := range objPat.FindAllSubmatch(img, 400) {
		n, _ := strconv.Atoi(string(m[1]))
		g, _ := strconv.Atoi(string(m[2]))
		if n < 1<<24 && g < 65536 {
			refs[pdf.NewReference(uint32(n), uint16(g))] = true
		}
	}
	for n := uint32(0); n < 40; n++ {
		refs[pdf.NewReference(n, 0)] = true
	}

	h := simdisk.NewHandle(img)
	h.EOFAtEnd = eofAtEnd
	r, err := pdf.NewReader(h, int64(len(img)), opt)
	if err == nil {
		st.opened = true
		walkReader(r, refs, st, true)
		r.Close()
	}
	h2 := simdisk.NewHandle(img)
	h2.EOFAtEnd = eofAtEnd
	fi, err := pdf.SequentialScan(h2, int64(len(img)))
	if err == nil {
		for _, sec := range fi.Sections {
			for i, o := range sec.Objects {
				if i > 50 {
					break
				}
				fi.Read(o)
			}
		}
		r2, err := fi.MakeReader(opt)
		if err == nil {
			st.seqOK = true
			walkReader(r2, refs, st, false)
		}
	}
}

const drainCap = 8 << 20

func sortedRefs(refs map[pdf.Reference]bool) []pdf.Reference {
	out := make([]pdf.Reference, 0, len(refs))
	for ref := range refs {
		out = append(out, ref)
	}
	sort.Slice(out, func(i, j int) bool { return out[i] < out[j] })
	return out
}

func walkReader(r *pdf.Reader, refsSet map[pdf.Reference]bool, st *stats, full bool) {
	refs := sortedRefs(refsSet)
	for _, ref := range refs {
		st.gets++
		obj, err := r.Get(ref, true)
		if err != nil {
			continue
		}
		stm, ok := obj.(*pdf.Stream)
		if !ok {
			continue
		}
		st.streams++
		st.budgets += int64(8<<20) + 1024*min(stm.Length(), 256<<10)
		rc, err := pdf.DecodeStream(r, nil, stm)
		if err != nil {
			continue
		}
		n, _ := io.Copy(io.Discard, io.LimitReader(rc, drainCap))
		st.drained += n
		if n >= drainCap {
			st.capped = true
		}
		rc.Close()
	}
	meta := r.GetMeta()
	if meta.Catalog == nil {
		return
	}
	x := pdf.NewExtractor(r)
	rd := reader.New(x)
	rd.Character = func(c font.Code) error { return nil }
	np := 0
	it := pagetree.NewIterator(r)
	for ref := range it.All() {
		np++
		if np > 30 {
			break
		}
		st.pages++
		pg, err := pdf.Decode(pdf.CursorAt(x, nil), ref, page.Decode)
		if err != nil || pg == nil {
			continue
		}
		if pg.Resources != nil {
			for _, f := range pg.Resources.Font {
				if f != nil {
					st.fonts++
					textextract.GlyphNameMapping(f)
				}
			}
		}
		rd.ProcessPage(pg)
	}
	pagetree.NumPages(r)
	pagetree.GetPage(r, 0)
	if !full {
		return
	}
	// fonts reachable by number as well (type-confused objects included)
	k := 0
	for _, ref := range refs {
		k++
		if k > 60 {
			break
		}
		f, err := pdf.Decode(pdf.CursorAt(x, nil), ref, extract.Font)
		if err == nil && f != nil {
			st.fonts++
			textextract.GlyphNameMapping(f)
		}
	}
	if meta.Catalog.Outlines != 0 {
		pdf.Decode(pdf.CursorAt(x, nil), meta.Catalog.Outlines, outline.Decode)
	}
	if names, ok := meta.Catalog.Names.(pdf.Dict); ok {
		if tr, err := nametree.ExtractFromFile(r, names["Dests"]); err == nil && tr != nil {
			// no cap on the number of entries: the walk over a hostile tree
			// has to end by the library's own bookkeeping.  The harness only
			// stops counting once the simulated clock is far beyond any bound.
			cnt := 0
			w0 := core.WorkNow()
			for range tr.All() {
				cnt++
				if cnt&1023 == 0 && (core.WorkNow()-w0 > 1<<32 || !core.WorkActive() && cnt > 50_000_000) {
					st.runaway = true
					break
				}
			}
			if st.runaway {
				return
			}
			tr.Lookup("key0007")
		}
		nametree.ExtractInMemory(r, names["Dests"])
	}
}

// type1Doc writes a document whose page uses a simple Type 1 font with an
// embedded font program that is not a valid Type 1 font.
func type1Doc(fontData []byte) ([]byte, error) {
	disk := simdisk.NewDisk()
	w, err := pdf.NewWriter(disk.Sink(simdisk.Seekable), pdf.V1_7, &pdf.WriterOptions{HumanReadable: true})
	if err != nil {
		return nil, err
	}
	ff := w.Alloc()
	if err := w.Put(ff, pdf.NewStream(pdf.Dict{"Length1": pdf.Integer(len(fontData)), "Length2": pdf.Integer(0), "Length3": pdf.Integer(0)}, fontData)); err != nil {
		return nil, err
	}
	fd := w.Alloc()
	w.Put(fd, pdf.Dict{"Type": pdf.Name("FontDescriptor"), "FontName": pdf.Name("Junk"), "Flags": pdf.Integer(32), "FontBBox": pdf.Array{pdf.Integer(0), pdf.Integer(0), pdf.Integer(1000), pdf.Integer(1000)},
		"ItalicAngle": pdf.Integer(0), "Ascent": pdf.Integer(800), "Descent": pdf.Integer(-200), "CapHeight": pdf.Integer(700), "StemV": pdf.Integer(80), "FontFile": ff})
	fnt := w.Alloc()
	w.Put(fnt, pdf.Dict{"Type": pdf.Name("Font"), "Subtype": pdf.Name("Type1"), "BaseFont": pdf.Name("Junk"), "FirstChar": pdf.Integer(65), "LastChar": pdf.Integer(66),
		"Widths": pdf.Array{pdf.Integer(500), pdf.Integer(600)}, "FontDescriptor": fd, "Encoding": pdf.Name("WinAnsiEncoding")})
	cont := w.Alloc()
	w.Put(cont, pdf.NewStream(pdf.Dict{}, []byte("BT /F1 12 Tf 50 500 Td (AB) Tj ET\n")))
	pages := w.Alloc()
	pg := w.Alloc()
	w.Put(pg, pdf.Dict{"Type": pdf.Name("Page"), "Parent": pages, "MediaBox": pdf.Array{pdf.Integer(0), pdf.Integer(0), pdf.Integer(300), pdf.Integer(600)},
		"Contents": cont, "Resources": pdf.Dict{"Font": pdf.Dict{"F1": fnt}}})
	w.Put(pages, pdf.Dict{"Type": pdf.Name("Pages"), "Kids": pdf.Array{pg}, "Count": pdf.Integer(1)})
	w.GetMeta().Catalog.Pages = pages
	if err := w.Close(); err != nil {
		return nil, err
	}
	return disk.Data, nil
}

var corners = map[string]func(e *core.Env){
	// the leak named in the property text: a malformed embedded Type 1 font
	// must not leave the producer goroutine of type1glyphs.FromStream behind
	"malformed-embedded-type1-font": func(e *core.Env) {
		for _, data := range [][]byte{
			[]byte("%!PS-AdobeFont-1.0: Junk 001.000\n" + string(bytes.Repeat([]byte("this is not a font program "), 400))),
			bytes.Repeat([]byte{0x80, 0x01, 0xff}, 3000),
			[]byte("%!"),
		} {
			img, err := type1Doc(data)
			if err != nil {
				e.Skip(err.Error())
				return
			}
			for mode := 0; mode < 3; mode++ {
				Walk(e, img, pdf.ReaderErrorHandling(mode), "", false)
				if e.Failed() {
					return
				}
			}
		}
		e.Probe("type1 corner walked")
	},
}

// decoderTicks is the share of the simulated clock spent in the stream
// decoders: the packages under internal/filter and graphics/bitmap, the bitmap
// package the JBIG2 and CCITT decoders do their pixel work in.
func decoderTicks() int64 {
	return core.WorkIn("internal/filter") + core.WorkIn("graphics/bitmap")
}

var calibMax float64

func calib(ticks, filterTicks, in int64, st *stats, pkg0 map[string]int64) {
	if os.Getenv("VSIM_CALIB") == "" {
		return
	}
	top := ""
	{
		now := core.WorkByPackage()
		type kv struct {
			k string
			v int64
		}
		var l []kv
		for k, v := range now {
			if d := v - pkg0[k]; d > 0 {
				l = append(l, kv{k, d})
			}
		}
		sort.Slice(l, func(i, j int) bool { return l[i].v > l[j].v })
		for i := 0; i < len(l) && i < 4; i++ {
			top += fmt.Sprintf(" %s=%d", l[i].k, l[i].v)
		}
	}
	rest := ticks - filterTicks
	r := float64(rest) / float64(int64(32<<20)*int64(1+st.fonts)+4096*(in+st.drained))
	if f, err := os.OpenFile(fmt.Sprintf("/tmp/c05all.%d", os.Getpid()), os.O_APPEND|os.O_CREATE|os.O_WRONLY, 0o644); err == nil {
		fmt.Fprintf(f, "%d %d %d %d %d %d %d %d\n", rest, filterTicks, in, st.drained, st.streams, st.pages, st.fonts, st.budgets)
		f.Close()
	}
	if r > calibMax && ticks > 100000 {
		calibMax = r
		f, _ := os.OpenFile(fmt.Sprintf("/tmp/c05calib.%d", os.Getpid()), os.O_APPEND|os.O_CREATE|os.O_WRONLY, 0o644)
		fmt.Fprintf(f, "ratio=%.3f\trest=%d\tticks=%d\tin=%d\tdrained=%d\tbudgets=%d\tstreams=%d\tgets=%d\tpages=%d\tfonts=%d\ttop:%s\n", r, rest, ticks, in, st.drained, st.budgets, st.streams, st.gets, st.pages, st.fonts, top)
		f.Close()
	}
}
