// Package c03 checks property C03: files the Writer produces are structurally
// valid as judged by the independent strict parser in verif/sim/strictpdf.
package c03

import (
	"bytes"
	"fmt"
	"io"

	"seehuhn.de/go/membudget"
	"seehuhn.de/go/pdf"
	"verif/sim/core"
	"verif/sim/gen"
	"verif/sim/simdisk"
	"verif/sim/strictpdf"
	"verif/sim/wprog"
)

func init() {
	core.Register(&core.Prop{
		ID:    "C03",
		Level: "exploration",
		Rule: "one case = one write program as in C02 (unencrypted) x 9 versions x HumanReadable x 5 sink kinds; after Close the disk image is validated by strictpdf " +
			"(header, %%EOF, startxref = last xref section, 20-byte table lines / W-encoded xref stream, one entry per number below /Size, every in-use entry at its 'N G obj', " +
			"stream /Length (direct or indirect) framing, object stream /N /First offset table) and the values it extracts are compared with the model. " +
			"non-trivial = at least two objects written; distinct = hash of (configuration, operation kinds, filter chains).",
		Assumptions: []string{
			"strictpdf is written from ISO 32000 and imports only the standard library; it decodes Flate (+PNG predictors), ASCIIHex, ASCII85 and RunLength itself; stream data behind LZW or the TIFF predictor is decoded with the library's filter on the raw bytes strictpdf extracted (framing is still checked independently)",
			"clauses the statement does not make (free-list linkage, /W minimality, line lengths) are not checked",
		},
		Real:     []string{"seehuhn.de/go/pdf Writer, xref writer, Format, filters (working tree)"},
		Stub:     []string{"sink (simdisk: 5 kinds)", "write chunking"},
		Quick:    core.Budget{Runs: 200000, Secs: 150},
		Thorough: core.Budget{Runs: 3000000, Secs: 900},
		Run:      Run,
		Corners:  corners,
	})
}

var restrict = wprog.Restrict{NoEncrypt: true, NoWriterGet: true, Bulk: true, WrongLength: true}

func Run(e *core.Env) {
	cfg := wprog.DrawConfig(e.T, &restrict)
	disk := simdisk.NewDisk()
	res := wprog.Execute(e.T, cfg, &restrict, disk.Sink(cfg.Sink))
	e.Note("config", cfg.String())
	e.Note("ops", res.OpNames)
	e.Steps(disk.Writes + disk.Seeks)
	for k, v := range res.Probes {
		for i := 0; i < v; i++ {
			e.Probe(k)
		}
	}
	if res.Err != nil && res.ExpectedReject {
		e.Probe("invalid request refused by the Writer")
		e.Nontrivial()
		return
	}
	if res.Err != nil {
		e.Skip("writer rejected " + res.ErrOp)
		return
	}
	e.Sig(res.Shape())
	if len(res.Order) > 1 {
		e.Nontrivial()
	}
	Validate(e, res, disk.Data)
}

// ToPDF converts a strictpdf value to the library's types for comparison.
func ToPDF(v strictpdf.Value) pdf.Object {
	switch x := v.(type) {
	case nil:
		return nil
	case bool:
		return pdf.Boolean(x)
	case strictpdf.Integer:
		return pdf.Integer(x)
	case strictpdf.Real:
		return pdf.Real(x)
	case strictpdf.Name:
		return pdf.Name(x)
	case strictpdf.String:
		return pdf.String(x)
	case strictpdf.Array:
		a := make(pdf.Array, len(x))
		for i, y := range x {
			a[i] = ToPDF(y)
		}
		return a
	case strictpdf.Dict:
		d := pdf.Dict{}
		for k, y := range x {
			d[pdf.Name(k)] = ToPDF(y)
		}
		return d
	case strictpdf.Ref:
		return pdf.NewReference(x.Num, x.Gen)
	}
	return pdf.Name(fmt.Sprintf("?%T", v))
}

func sref(r pdf.Reference) strictpdf.Ref { return strictpdf.Ref{Num: r.Number(), Gen: r.Generation()} }

// Validate runs the strict parser over the image and compares with the model.
func Validate(e *core.Env, res *wprog.Result, image []byte) {
	f, err := strictpdf.Parse(image)
	if err != nil {
		e.Fail("structure", map[string]string{"kind": classify(err.Error())}, "strict parser rejects the file: %v", err)
		return
	}
	cfg := res.Cfg
	if vs, _ := cfg.Version.ToString(); f.Version != vs {
		e.Fail("structure", map[string]string{"kind": "header"}, "header version %q, expected %q", f.Version, vs)
		return
	}
	if f.XRefKind == "stream" {
		e.Probe("xref stream")
	} else {
		e.Probe("xref table")
	}
	for _, ref := range res.SortedRefs() {
		exp := res.Written[ref]
		obj := f.Objects[sref(ref)]
		if obj == nil {
			e.Fail("missing-object", map[string]string{"how": exp.How}, "object %s [%s] has no in-use cross-reference entry", ref, exp.How)
			return
		}
		if obj.InObjStm != 0 {
			e.Probe("object in object stream")
		}
		if !exp.IsStream {
			if d := gen.Diff(exp.Obj, ToPDF(obj.Value), ""); d != "" {
				e.Fail("value-mismatch", map[string]string{"how": exp.How}, "object %s [%s] as extracted by the strict parser: %s", ref, exp.How, d)
				return
			}
			continue
		}
		stm, ok := obj.Value.(*strictpdf.Stream)
		if !ok {
			e.Fail("value-mismatch", map[string]string{"how": exp.How}, "object %s [%s]: expected a stream, strict parser found %T", ref, exp.How, obj.Value)
			return
		}
		if _, indirect := stm.Dict["Length"].(strictpdf.Ref); indirect {
			e.Probe("indirect /Length")
		}
		if d := wprog.DictDiff(exp.Dict, ToPDF(stm.Dict).(pdf.Dict)); d != "" {
			e.Fail("stream-dict-mismatch", map[string]string{"how": exp.How}, "stream %s [%s]: dictionary %s", ref, exp.How, d)
			return
		}
		data, supported, err := strictpdf.DecodeChain(stm)
		if err != nil {
			e.Fail("stream-data", map[string]string{"how": exp.How}, "stream %s [%s %v]: independent decoder: %v", ref, exp.How, exp.Filters, err)
			return
		}
		if !supported {
			e.Probe("stream decoded with library filter (LZW/TIFF)")
			data, err = libDecode(cfg.Version, stm)
			if err != nil {
				e.Fail("stream-data", map[string]string{"how": exp.How}, "stream %s [%s %v]: %v", ref, exp.How, exp.Filters, err)
				return
			}
		}
		if !bytes.Equal(data, exp.Body) {
			e.Fail("stream-data", map[string]string{"how": exp.How}, "stream %s [%s %v]: %d bytes written, strict parser extracts %d", ref, exp.How, exp.Filters, len(exp.Body), len(data))
			return
		}
	}
	for _, ref := range res.Unwritten {
		if _, written := res.Written[ref]; written {
			continue
		}
		if f.Objects[sref(ref)] != nil {
			e.Fail("structure", map[string]string{"kind": "unwritten-in-use"}, "reference %s was never written but has an in-use entry", ref)
			return
		}
	}
	// trailer
	root, ok := f.Trailer["Root"].(strictpdf.Ref)
	if !ok {
		e.Fail("structure", map[string]string{"kind": "trailer"}, "trailer has no /Root reference")
		return
	}
	cat := f.Objects[root]
	if cat == nil {
		e.Fail("structure", map[string]string{"kind": "trailer"}, "/Root %v is not an in-use object", root)
		return
	}
	cd, _ := cat.Value.(strictpdf.Dict)
	if cd["Type"] != strictpdf.Name("Catalog") || cd["Pages"] != sref(res.PagesRef) {
		e.Fail("structure", map[string]string{"kind": "catalog"}, "catalog is %v", cat.Value)
		return
	}
	needID := cfg.GiveID > 0 || cfg.Version >= pdf.V2_0
	ida, hasID := f.Trailer["ID"].(strictpdf.Array)
	if needID {
		if !hasID || len(ida) != 2 || !bytes.Equal(ida[0].(strictpdf.String), res.ID[0]) || !bytes.Equal(ida[1].(strictpdf.String), res.ID[1]) {
			e.Fail("structure", map[string]string{"kind": "id"}, "trailer /ID %v, expected %x", f.Trailer["ID"], res.ID)
			return
		}
	} else if hasID {
		e.Fail("structure", map[string]string{"kind": "id"}, "unexpected trailer /ID")
		return
	}
}

func libDecode(v pdf.Version, stm *strictpdf.Stream) ([]byte, error) {
	d := ToPDF(stm.Dict).(pdf.Dict)
	var names []pdf.Name
	var parms []pdf.Dict
	switch f := d["Filter"].(type) {
	case pdf.Name:
		names = append(names, f)
		p, _ := d["DecodeParms"].(pdf.Dict)
		parms = append(parms, p)
	case pdf.Array:
		pa, _ := d["DecodeParms"].(pdf.Array)
		for i, x := range f {
			names = append(names, x.(pdf.Name))
			var p pdf.Dict
			if i < len(pa) {
				p, _ = pa[i].(pdf.Dict)
			}
			parms = append(parms, p)
		}
	}
	var r io.Reader = bytes.NewReader(stm.Raw)
	for i, n := range names {
		flt, err := pdf.MakeFilter(n, parms[i])
		if err != nil {
			return nil, err
		}
		rc, err := flt.Decode(v, r, membudget.New(1<<30))
		if err != nil {
			return nil, err
		}
		r = rc
	}
	return io.ReadAll(r)
}

func classify(msg string) string {
	for _, k := range []struct{ pat, kind string }{
		{"/Length", "stream-length"}, {"object stream", "objstm"}, {"cross-reference", "xref"}, {"startxref", "startxref"},
		{"EOF", "eof"}, {"header", "header"}, {"entry", "xref"}, {"/Size", "size"}, {"xref offset", "offset"},
	} {
		if bytes.Contains([]byte(msg), []byte(k.pat)) {
			return k.kind
		}
	}
	return "syntax"
}

var corners = map[string]func(e *core.Env){}
