// Package c08 checks property C08: stream decoders are total and
// resource-bounded on hostile data.
package c08

import (
	"bytes"
	"fmt"
	"image"
	"image/color"
	"image/jpeg"
	"io"
	"os"
	"runtime"
	"sort"
	"time"

	"seehuhn.de/go/membudget"
	"seehuhn.de/go/pdf"
	"verif/sim/core"
	"verif/sim/fgen"
	"verif/sim/forge"
	"verif/sim/gen"
	"verif/sim/simio"
	"verif/sim/tape"
)

func init() {
	core.Register(&core.Prop{
		ID:    "C08",
		Level: "exploration",
		Rule: "one case = (filter chain of 0..10 entries over all filter names incl. unknown ones, /DecodeParms valid, mutated or type-confused, body = valid encoding / JPEG / crafted bomb / JPEG forged marker by marker (scan programs, custom Huffman tables, scan bombs) / LZW code sequences packed by hand (no clear code after the table is full, repeated top code, KwKwK at any time) / JBIG2 forged segment by segment (all region and dictionary types, globals stream) / random bytes, then corrupted by bit flips, overwrites, splices, truncation) " +
			"x decode path (pdf.DecodeStream on a Getter that may hold indirect and cyclic filter parameters, or MakeFilter+Decode directly with a drawn small memory budget and a chunked source) x consumer behaviour (drain with drawn buffer sizes, or Close early at read k). " +
			"Chains containing DCTDecode run inside a testing/synctest bubble so that a helper goroutine left behind is detected exactly. non-trivial = body non-empty and at least one filter; distinct = hash of (chain, parameter shape, body length, corruption kinds, path, consumer).",
		Assumptions: []string{
			"the source never fails here (I/O failures are C19); every error must therefore be classified as malformed input",
			"time is simulated: one tick per function entry and loop iteration inside internal/filter/** (counter inserted by a build overlay, no hook in /repo); bound = K*(StreamBudget(rawLen) + bytes produced) with K = 24 for DCT and 512 for JBIG2 (decoders that hold an image they may traverse a bounded number of times), 256*(bytes in + bytes out) + 64Mi for the byte-oriented decoders, calibrated on the unchanged tree; applied only when no stage before the last one can expand; the wall-clock watchdog remains as a backstop",
			"allocation is bounded by a measured proxy: runtime.MemStats.TotalAlloc delta <= 12*budget + 16*bytes drained + 32 MiB, budget = StreamBudget(rawLen) or the larger budget handed to Filter.Decode directly (TotalAlloc is cumulative: a buffer grown by appending up to the budget alone accounts for about five times the budget) (the per-stream budget limits live working memory, which cannot be observed directly); a process that exceeds RLIMIT_AS dies and is reported as a crash",
			"output: chained Flate/LZW/RunLength stages multiply their expansion, so no input-proportional output bound exists; draining stops at 24 MiB per run. A lone CCITTFax stream must stay below MaxImagePixels/8 + 1 MiB (its geometry cap); the DCT and JBIG2 geometry caps (up to 2 GiB) are too large to drain per run and are covered only through the allocation proxy",
		},
		Real:       []string{"seehuhn.de/go/pdf DecodeStream, GetFilters, MakeFilter, all filters and internal codecs incl. JPEG and JBIG2 decoders (working tree)"},
		Stub:       []string{"Getter (in-memory object table incl. cycles)", "source delivery (simio)", "memory budget argument", "consumer (early close)"},
		Quick:      core.Budget{Runs: 120000, Secs: 150},
		Thorough:   core.Budget{Runs: 5000000, Secs: 900},
		Run:        Run,
		Corners:    corners,
		WantProbes: []string{"work bound evaluated"},
	})
}

type getter struct {
	meta pdf.MetaInfo
	objs map[pdf.Reference]pdf.Native
	gets int
}

func (g *getter) GetMeta() *pdf.MetaInfo { return &g.meta }
func (g *getter) Get(ref pdf.Reference, _ bool) (pdf.Native, error) {
	g.gets++
	return g.objs[ref], nil
}

var filterNames = []pdf.Name{"FlateDecode", "LZWDecode", "ASCII85Decode", "ASCIIHexDecode", "RunLengthDecode", "CCITTFaxDecode", "DCTDecode", "JBIG2Decode",
	"JPXDecode", "Crypt", "Fl", "NoSuchFilter", ""}

func jpegSample(t *tape.Tape) []byte {
	w := 1 + t.Draw("jpeg.w", 40)
	h := 1 + t.Draw("jpeg.h", 40)
	st := t.Sub("jpeg.seed")
	var img image.Image
	if t.Bool("jpeg.gray", 1, 2) {
		g := image.NewGray(image.Rect(0, 0, w, h))
		for i := range g.Pix {
			g.Pix[i] = byte(st.Intn(256))
		}
		img = g
	} else {
		c := image.NewRGBA(image.Rect(0, 0, w, h))
		for y := 0; y < h; y++ {
			for x := 0; x < w; x++ {
				c.Set(x, y, color.RGBA{byte(st.Intn(256)), byte(x * 6), byte(y * 6), 255})
			}
		}
		img = c
	}
	var buf bytes.Buffer
	jpeg.Encode(&buf, img, &jpeg.Options{Quality: 1 + t.Draw("jpeg.q", 100)})
	return buf.Bytes()
}

// confuse draws a parameter value of arbitrary type and magnitude.
func confuse(t *tape.Tape, lbl string) pdf.Object {
	switch t.Draw(lbl+".t", 9) {
	case 0:
		return nil
	case 1:
		return pdf.Integer(tape.Pick(t, lbl+".i", int64(0), -1, 1, 1<<31, 1<<40, -1<<40, 1<<62, 65535, 65536, 1<<20, 1<<20+1))
	case 2:
		return pdf.Real(tape.Pick(t, lbl+".r", 0.5, -1.5, 1e300, 1e-300))
	case 3:
		return pdf.Name("X")
	case 4:
		return pdf.String("str")
	case 5:
		return pdf.Array{pdf.Integer(1), pdf.Name("Y")}
	case 6:
		return pdf.Dict{"Predictor": pdf.Integer(12)}
	case 7:
		return pdf.Boolean(t.Bool(lbl+".b", 1, 2))
	default:
		return pdf.NewReference(uint32(1+t.Draw(lbl+".ref", 6)), 0)
	}
}

var parmKeys = []pdf.Name{"Predictor", "Colors", "BitsPerComponent", "Columns", "EarlyChange", "K", "Rows", "EndOfLine", "EncodedByteAlign", "EndOfBlock", "BlackIs1",
	"DamagedRowsBeforeError", "ColorTransform", "JBIG2Globals", "Name", "Type"}

func corrupt(t *tape.Tape, body []byte) ([]byte, []string) {
	var kinds []string
	n := t.Weighted("corrupt.n", 3, 3, 2, 1)
	out := append([]byte(nil), body...)
	for i := 0; i < n; i++ {
		l := fmt.Sprintf("corrupt.%d", i)
		if len(out) == 0 {
			break
		}
		switch t.Draw(l+".kind", 5) {
		case 0:
			p := t.Draw(l+".pos", len(out))
			out[p] ^= 1 << t.Draw(l+".bit", 8)
			kinds = append(kinds, "bitflip")
		case 1:
			p := t.Draw(l+".pos", len(out))
			k := 1 + t.Draw(l+".len", 16)
			b := byte(tape.Pick(t, l+".fill", 0, 0xff, 0x80, 0x41))
			for j := p; j < p+k && j < len(out); j++ {
				out[j] = b
			}
			kinds = append(kinds, "overwrite")
		case 2:
			out = out[:t.Draw(l+".cut", len(out)+1)]
			kinds = append(kinds, "truncate")
		case 3:
			a := t.Draw(l+".a", len(out))
			b := t.Draw(l+".b", len(out))
			k := 1 + t.Draw(l+".k", 64)
			if a+k > len(out) {
				k = len(out) - a
			}
			seg := append([]byte(nil), out[a:a+k]...)
			out = append(out[:b:b], append(seg, out[b:]...)...)
			kinds = append(kinds, "splice")
		default:
			p := t.Draw(l+".pos", len(out))
			out[p] = byte(t.Draw(l+".val", 256))
			kinds = append(kinds, "byte")
		}
	}
	return out, kinds
}

func Run(e *core.Env) {
	t := e.T
	version := tape.Pick(t, "version", pdf.V1_7, pdf.V1_1, pdf.V1_4, pdf.V2_0)
	g := &getter{meta: pdf.MetaInfo{Version: version}, objs: map[pdf.Reference]pdf.Native{}}

	// base body and matching filter
	var names []pdf.Name
	var parms []pdf.Object
	var body []byte
	base := t.Weighted("base", 5, 3, 3, 2, 3, 4, 2)
	var globals []byte
	baseDesc := ""
	switch base {
	case 0: // valid encoding of a drawn filter
		c, ok := fgen.Draw(t, "f", true)
		if !ok {
			e.Skip("parameters rejected by validation")
			return
		}
		data := fgen.Data(t, "data", &c, 6000)
		var buf sinkBuf
		enc, err := c.Filter.Encode(c.Version, &buf)
		if err != nil {
			e.Skip("encode failed")
			return
		}
		enc.Write(data)
		enc.Close()
		body = buf.Bytes()
		name, dict, _ := c.Filter.Info(c.Version)
		names = append(names, name)
		if dict != nil {
			parms = append(parms, dict)
		} else {
			parms = append(parms, nil)
		}
		baseDesc = "valid " + c.Desc
	case 1: // JPEG
		body = jpegSample(t)
		names = append(names, "DCTDecode")
		parms = append(parms, nil)
		baseDesc = "jpeg"
	case 2: // bombs
		switch t.Draw("bomb", 5) {
		case 4: // nested: zeros compressed two or three times, any decoder on top
			depth := 2 + t.Draw("bomb.depth", 2)
			mib := tape.Pick(t, "bomb.mib", 1, 4, 12, 24, 48, 96)
			key := fmt.Sprint(mib)
			var stages []bool
			for i := 0; i < depth; i++ {
				lzw := t.Bool("bomb.lzw", 1, 4)
				stages = append(stages, lzw)
				key += fmt.Sprint(lzw)
			}
			data, cached := nestedCache[key]
			if !cached {
				data = make([]byte, mib<<20)
				for _, lzw := range stages {
					var buf sinkBuf
					var enc io.WriteCloser
					if lzw {
						enc, _ = pdf.FilterLZW{}.Encode(pdf.V1_7, &buf)
					} else {
						enc, _ = pdf.FilterFlate{}.Encode(pdf.V1_7, &buf)
					}
					enc.Write(data)
					enc.Close()
					data = append([]byte(nil), buf.Bytes()...)
				}
				nestedCache[key] = data
			}
			data = append([]byte(nil), data...)
			for _, lzw := range stages {
				if lzw {
					names = append([]pdf.Name{"LZWDecode"}, names...)
				} else {
					names = append([]pdf.Name{"FlateDecode"}, names...)
				}
				parms = append(parms, nil)
			}
			body = data
			names = append(names, tape.Pick(t, "bomb.top", pdf.Name("JBIG2Decode"), "DCTDecode", "CCITTFaxDecode", "RunLengthDecode", "ASCIIHexDecode", "ASCII85Decode", "LZWDecode", "FlateDecode"))
			parms = append(parms, nil)
			baseDesc = fmt.Sprintf("nested bomb depth %d", depth)
		case 0: // highly compressible flate
			var buf sinkBuf
			enc, _ := pdf.FilterFlate{}.Encode(pdf.V1_7, &buf)
			z := make([]byte, 1<<16)
			for i := 0; i < 1+t.Draw("bomb.n", 64); i++ {
				enc.Write(z)
			}
			enc.Close()
			body = buf.Bytes()
			names = append(names, "FlateDecode")
			parms = append(parms, nil)
			baseDesc = "flate bomb"
		case 1: // LZW of zeros
			var buf sinkBuf
			enc, _ := pdf.FilterLZW{}.Encode(pdf.V1_7, &buf)
			z := make([]byte, 1<<16)
			for i := 0; i < 1+t.Draw("bomb.n", 16); i++ {
				enc.Write(z)
			}
			enc.Close()
			body = buf.Bytes()
			names = append(names, "LZWDecode")
			parms = append(parms, pdf.Dict{"EarlyChange": pdf.Integer(0)})
			baseDesc = "lzw bomb"
		case 2: // CCITT: small body that encodes rows cheaply, huge declared geometry
			fillByte := byte(tape.Pick(t, "bomb.fill", 0xff, 0x00, 0x10, 0x80))
			body = bytes.Repeat([]byte{fillByte}, 64<<t.Draw("bomb.shift", 7))
			if t.Bool("bomb.pattern", 1, 4) {
				body = bytes.Repeat([]byte{0x00, 0x10, 0x01}, 1+t.Draw("bomb.n", 20))
			}
			pd := pdf.Dict{"K": pdf.Integer(tape.Pick(t, "bomb.K", int64(-1), 0, 1)),
				"Columns": pdf.Integer(tape.Pick(t, "bomb.cols", int64(1<<20), 65535, 1<<31, 100000, 1<<16))}
			if rows := tape.Pick(t, "bomb.rows", int64(0), 1<<20, 65535, 1<<16, 1<<31); rows != 0 {
				pd["Rows"] = pdf.Integer(rows)
			}
			if t.Bool("bomb.noeob", 1, 3) {
				pd["EndOfBlock"] = pdf.Boolean(false)
			}
			names = append(names, "CCITTFaxDecode")
			parms = append(parms, pd)
			baseDesc = "ccitt bomb"
		default: // JPEG claiming huge dimensions
			body = jpegSample(t)
			if i := bytes.Index(body, []byte{0xff, 0xc0}); i >= 0 && i+9 < len(body) {
				body[i+5], body[i+6], body[i+7], body[i+8] = 0xff, 0xff, 0xff, 0xff
			}
			names = append(names, "DCTDecode")
			parms = append(parms, nil)
			baseDesc = "jpeg bomb"
		}
	case 4: // JPEG assembled marker by marker
		body, baseDesc = forge.JPEG(t, "fj")
		names = append(names, "DCTDecode")
		if t.Bool("fj.ct", 1, 4) {
			parms = append(parms, pdf.Dict{"ColorTransform": pdf.Integer(t.Draw("fj.ct.v", 2))})
		} else {
			parms = append(parms, nil)
		}
	case 6: // LZW codes packed by hand
		var ec int
		body, ec, baseDesc = forge.LZW(t, "lz")
		names = append(names, "LZWDecode")
		if ec == 1 && t.Bool("lz.noparms", 1, 2) {
			parms = append(parms, nil)
		} else {
			parms = append(parms, pdf.Dict{"EarlyChange": pdf.Integer(ec)})
		}
	case 5: // JBIG2 assembled segment by segment
		body, globals, baseDesc = forge.JBIG2(t, "jb")
		names = append(names, "JBIG2Decode")
		if globals != nil {
			gref := pdf.NewReference(7, 0)
			g.objs[gref] = pdf.NewStream(pdf.Dict{}, globals)
			parms = append(parms, pdf.Dict{"JBIG2Globals": gref})
		} else {
			parms = append(parms, nil)
		}
	default: // random bytes
		body = gen.Bytes(t, "rand", 3000)
		baseDesc = "random"
	}

	// more filters on top, known and unknown names
	extra := t.Weighted("extra", 6, 3, 2, 1, 1)
	if extra == 4 {
		extra = 4 + t.Draw("extra.n", 8) // beyond the 8-entry cap
	}
	for i := 0; i < extra; i++ {
		l := fmt.Sprintf("x%d", i)
		if t.Bool(l+".odd", 1, 5) {
			names = append(names, filterNames[t.Draw(l+".name", len(filterNames))])
		} else {
			names = append(names, filterNames[t.Draw(l+".name", 7)])
		}
		parms = append(parms, nil)
	}
	// parameter tampering
	tampered := false
	for i := range parms {
		l := fmt.Sprintf("p%d", i)
		switch t.Weighted(l+".how", 10, 1, 3) {
		case 1: // replace the whole entry
			parms[i] = confuse(t, l+".whole")
			tampered = true
		case 2: // tamper with one key
			d, _ := parms[i].(pdf.Dict)
			nd := pdf.Dict{}
			for k, v := range d {
				nd[k] = v
			}
			nd[parmKeys[t.Draw(l+".key", len(parmKeys))]] = confuse(t, l+".val")
			parms[i] = nd
			tampered = true
		}
	}
	// objects behind the references handed out by confuse: integers, dicts,
	// a stream that can serve as JBIG2Globals, and cycles
	for n := uint32(1); n <= 6; n++ {
		ref := pdf.NewReference(n, 0)
		switch t.Draw(fmt.Sprintf("obj%d", n), 6) {
		case 0:
			g.objs[ref] = pdf.Integer(12)
		case 1:
			g.objs[ref] = pdf.Dict{"Predictor": pdf.Integer(15), "Columns": pdf.NewReference(n%6+1, 0)}
		case 2:
			g.objs[ref] = pdf.NewReference(n%6+1, 0) // chain, possibly cyclic
		case 3:
			g.objs[ref] = pdf.NewStream(pdf.Dict{"Filter": pdf.Name("JBIG2Decode"), "DecodeParms": pdf.Dict{"JBIG2Globals": pdf.NewReference(n%6+1, 0)}}, []byte("globals"))
		case 4:
			g.objs[ref] = pdf.Name("FlateDecode")
		}
	}

	body, ckinds := corrupt(t, body)
	dict := pdf.Dict{}
	if len(names) == 1 && t.Bool("single", 1, 2) {
		dict["Filter"] = names[0]
		if parms[0] != nil {
			dict["DecodeParms"] = parms[0]
		}
	} else if len(names) > 0 {
		fa := pdf.Array{}
		pa := pdf.Array{}
		any := false
		for i := range names {
			fa = append(fa, names[i])
			pa = append(pa, parms[i])
			if parms[i] != nil {
				any = true
			}
		}
		dict["Filter"] = fa
		if any || t.Bool("parmsarray", 1, 3) {
			dict["DecodeParms"] = pa
		}
	}
	if t.Bool("filter.confused", 1, 25) {
		dict["Filter"] = confuse(t, "filter.whole")
		tampered = true
	}

	direct := len(names) == 1 && t.Bool("direct", 1, 3)
	closeAt := -1
	if t.Bool("earlyclose", 1, 4) {
		closeAt = t.Draw("closeAt", 6)
	}
	dsched := simio.NewSchedule(t, "dsched", 0)
	e.Note("case", fmt.Sprintf("base=%s body=%d bytes corrupt=%v dict=%s direct=%v closeAt=%d v%s", baseDesc, len(body), ckinds, gen.Show(dict), direct, closeAt, version))
	e.Sig(baseDesc, fmt.Sprint(names), tampered, len(body), ckinds, direct, closeAt, dsched.Describe())
	if len(body) > 0 && len(names) > 0 {
		e.Nontrivial()
	}
	hasDCT := false
	for _, n := range names {
		if n == "DCTDecode" {
			hasDCT = true
		}
	}
	attrs := map[string]string{}
	_ = chainKey

	doubleClose := t.Bool("doubleclose", 1, 6)
	doCanary := doubleClose || t.Bool("canary", 1, 8)
	work := func() {
		decodeAndCheck(e, g, dict, body, globals, names, parms, direct, closeAt, doubleClose, dsched, attrs)
		// the decoders share a pool of zlib readers: after this run - however
		// it ended - two Flate streams that are open at the same time must
		// still be independent
		if !e.Failed() && (len(names) >= 2 || doCanary) {
			if err := core.FlateCanary(); err != nil {
				e.Fail("pool-corrupted", map[string]string{}, "after this stream was decoded (or failed to decode) and closed, two Flate streams open at the same time interfere: %v (dict %s)", err, gen.Show(dict))
			}
		}
	}
	if hasDCT || t.Bool("bubble", 1, 20) {
		e.Probe("ran in synctest bubble")
		if e.InBubble(work) {
			e.Fail("goroutine-leak", attrs, "a helper goroutine is still blocked after the decoded reader was closed (or DecodeStream returned an error): base=%s dict=%s", baseDesc, gen.Show(dict))
		}
	} else {
		work()
	}
}

// nestedCache holds the (deterministic) multiply compressed blobs of zeros.
var nestedCache = map[string][]byte{}

func chainKey(names []pdf.Name) string {
	set := map[string]bool{}
	for _, n := range names {
		set[string(n)] = true
	}
	var ks []string
	for k := range set {
		ks = append(ks, k)
	}
	sort.Strings(ks)
	if len(ks) > 3 {
		ks = ks[:3]
	}
	return fmt.Sprint(ks)
}

type sinkBuf struct{ bytes.Buffer }

func (s *sinkBuf) Close() error { return nil }

func decodeAndCheck(e *core.Env, g *getter, dict pdf.Dict, body, globals []byte, names []pdf.Name, parms []pdf.Object, direct bool, closeAt int, doubleClose bool, dsched *simio.Schedule, attrs map[string]string) {
	t := e.T
	var ms0, ms1 runtime.MemStats
	runtime.ReadMemStats(&ms0)
	work0 := core.WorkNow()
	var rc io.ReadCloser
	var err error
	budgetBytes := int64(8<<20) + 1024*int64(len(body))
	if budgetBytes > 264<<20 {
		budgetBytes = 264 << 20
	}
	drained := 0
	// the allocation proxy covers every way out of this function, including
	// decoders that do all their work while the chain is being built
	defer func() {
		if e.Failed() {
			return
		}
		// Simulated time: the instrumentation overlay counts one tick per function
		// entry and loop iteration inside the decoder packages.  Stages before the
		// last one must not expand (ASCIIHex, ASCII85), otherwise the last stage
		// legitimately works on an intermediate stream that is neither the input
		// nor the output.
		if eff, ok := effectiveNames(g, dict, names, direct); ok && core.WorkActive() && workQualifies(eff) {
			names := eff
			ticks := core.WorkNow() - work0
			in := int64(len(body) + len(globals))
			e.Probe("work bound evaluated")
			e.ProbeN("measured: simulated time spent in decoders (thousands of work ticks)", int(ticks/1000))
			calib(ticks, in, int64(drained), budgetBytes, names, closeAt >= 0, drained > 24<<20)
			bound := workBound(names[len(names)-1], budgetBytes, in, int64(drained))
			switch {
			case ticks > bound/2:
				e.Probe("work above 50% of the bound (" + string(names[len(names)-1]) + ")")
			case ticks > bound/4:
				e.Probe("work above 25% of the bound (" + string(names[len(names)-1]) + ")")
			}
			if ticks > bound {
				e.Fail("work", map[string]string{"filter": string(names[len(names)-1])}, "%d work ticks for %d bytes of input and %d bytes of output (bound %d for a stream budget of %d): not proportional (dict %s)", ticks, in, drained, bound, budgetBytes, gen.Show(dict))
			}
		}
		runtime.ReadMemStats(&ms1)
		alloc := int64(ms1.TotalAlloc - ms0.TotalAlloc)
		// TotalAlloc is cumulative: a buffer grown by appending up to the
		// budget alone accounts for about five times the budget
		if bound := 12*budgetBytes + 16*int64(drained) + 32<<20; alloc > bound && !e.Failed() {
			e.Fail("allocation", attrs, "TotalAlloc grew by %d bytes for a %d byte body (%d drained); bound %d (dict %s)", alloc, len(body), drained, bound, gen.Show(dict))
		}
	}()
	if direct {
		pd, _ := parms[0].(pdf.Dict)
		var f pdf.Filter
		f, err = pdf.MakeFilter(names[0], pd)
		if jf, ok := f.(*pdf.FilterJBIG2); ok && globals != nil {
			jf.Globals = globals
		}
		if err == nil {
			small := int64(tape.Pick(t, "budget", int64(1<<30), 0, 1, 100, 4096, 65536, 1<<20))
			if small > budgetBytes {
				// the bounds below are relative to the budget the decoder was
				// really given
				budgetBytes = small
			}
			src := simio.NewReader(body, simio.NewSchedule(t, "ssched", 0))
			src.EOFWithData = t.Bool("eofWithData", 1, 2)
			rc, err = f.Decode(g.meta.Version, src, membudget.New(small))
			e.Probe("direct Filter.Decode with drawn budget")
		}
	} else {
		rc, err = pdf.DecodeStream(g, nil, pdf.NewStream(gen.Clone(dict).(pdf.Dict), body))
	}
	if err != nil {
		e.Probe("error while building the decoder")
		if !pdf.IsMalformed(err) {
			e.Fail("not-malformed", map[string]string{"at": "build", "err": errShape(err)}, "building the decoder returns an error that is not classified as malformed input: %v (dict %s)", err, gen.Show(dict))
		}
		if rc != nil {
			e.Fail("reader-with-error", attrs, "both a reader and an error were returned")
		}
		return
	}
	// Chained Flate/LZW/RunLength stages multiply their expansion, so there is
	// no input-proportional bound on the output; draining simply stops at a cap.
	// Formats with intrinsic dimensions are different: a lone CCITTFax stream can
	// never yield more than MaxImagePixels/8 bytes plus one row.
	limit := 24 << 20
	// the filter that is really applied (the dictionary may have been tampered
	// with after names was drawn)
	lone := pdf.Name("")
	if direct {
		lone = names[0]
	} else {
		switch f := dict["Filter"].(type) {
		case pdf.Name:
			lone = f
		case pdf.Array:
			if len(f) == 1 {
				lone, _ = f[0].(pdf.Name)
			}
		}
	}
	geometric := lone == "CCITTFaxDecode"
	// DCT and JBIG2 carry their dimensions in the (possibly corrupted) body:
	// an independent walk over the markers / the first segment gives the
	// largest output the declared geometry allows
	intrinsic := int64(-1)
	if lone == "DCTDecode" {
		intrinsic = jpegMaxOutput(body)
	} else if lone == "JBIG2Decode" {
		intrinsic = jbig2MaxOutput(body)
	}
	reads := 0
	buf := make([]byte, 1<<16)
	var rerr error
	for {
		if closeAt >= 0 && reads >= closeAt {
			e.Probe("closed early")
			break
		}
		n := dsched.Next(1 << 16)
		m, err := rc.Read(buf[:n])
		reads++
		drained += m
		if m < 0 || m > n {
			e.Fail("bad-read-count", attrs, "Read returned n=%d for a buffer of %d", m, n)
			break
		}
		if err == io.EOF {
			break
		}
		if err != nil {
			rerr = err
			break
		}
		if intrinsic >= 0 && int64(drained) > intrinsic {
			e.Fail("unbounded-output", map[string]string{"filter": string(lone)}, "%d bytes drained from a %d byte %s body whose declared geometry allows at most %d (dict %s)", drained, len(body), lone, intrinsic, gen.Show(dict))
			break
		}
		if geometric && drained > 17<<20 {
			e.Fail("unbounded-output", attrs, "%d bytes drained from a %d byte CCITTFax body and still going (dict %s)", drained, len(body), gen.Show(dict))
			break
		}
		if drained > limit || reads >= 1<<20 {
			// the second cap: a consumer that asks for one byte at a time pays
			// a per-call cost that is the consumer's choice, not the decoder's
			// (CCITTFax moves the rest of a 128 KiB row on every call)
			e.Probe("drain cap reached")
			break
		}
		if m == 0 && reads > drained+10000 {
			e.Fail("no-progress", attrs, "reader returns (0,nil) forever")
			break
		}
	}
	cerr := rc.Close()
	_ = cerr
	if doubleClose {
		// defer rc.Close() next to an explicit Close is everyday Go; whatever
		// the second call returns, it must not disturb anything else
		rc.Close()
		e.Probe("reader closed twice")
	}
	e.Steps(reads)
	if rerr != nil {
		e.Probe("error while reading")
		if !pdf.IsMalformed(rerr) {
			e.Fail("not-malformed", map[string]string{"at": "read", "err": errShape(rerr)}, "reading returns an error that is not classified as malformed input: %v (dict %s)", rerr, gen.Show(dict))
		}
	} else {
		e.Probe("decoded to the end or closed")
	}
}

// errShape reduces an error message to its constant words so that it can
// serve as a class attribute.
func errShape(err error) string {
	msg := err.Error()
	var out []byte
	for i := 0; i < len(msg) && len(out) < 48; i++ {
		c := msg[i]
		if c >= '0' && c <= '9' {
			continue
		}
		out = append(out, c)
	}
	return string(out)
}

// Regressions for 103c429 (wrong-typed /DecodeParms reported as a non-malformed
// error) and 2e34b46 (JPEG producer goroutine left blocked when a later stage
// fails to build, or when the consumer closes a chain early).
var corners = map[string]func(e *core.Env){
	// Regression for ba2d403: a second Close of a decoded Flate stream put its
	// zlib reader into the package-level pool a second time.
	"flate-double-close": func(e *core.Env) {
		runtime.GC()
		runtime.GC()
		g := &getter{meta: pdf.MetaInfo{Version: pdf.V1_7}, objs: map[pdf.Reference]pdf.Native{}}
		var buf sinkBuf
		enc, _ := pdf.FilterFlate{}.Encode(pdf.V1_7, &buf)
		enc.Write(bytes.Repeat([]byte("double close "), 100))
		enc.Close()
		rc, err := pdf.DecodeStream(g, nil, pdf.NewStream(pdf.Dict{"Filter": pdf.Name("FlateDecode")}, buf.Bytes()))
		if err != nil {
			e.Fail("not-malformed", map[string]string{"at": "build", "err": errShape(err)}, "valid Flate stream: %v", err)
			return
		}
		io.ReadAll(rc)
		rc.Close()
		rc.Close()
		if err := core.FlateCanary(); err != nil {
			e.Fail("pool-corrupted", map[string]string{}, "after a decoded Flate stream was closed twice, two Flate streams open at the same time interfere: %v", err)
		}
	},
	// Regression for b50e8ef: a halftone region with an empty but very tall
	// grid (HGW=0, HGH=2^32-1) ran its per-row loops 2^32 times per bit plane.
	"jbig2-halftone-empty-grid": func(e *core.Env) {
		if !core.WorkActive() {
			return
		}
		u32 := func(v uint32) []byte { return []byte{byte(v >> 24), byte(v >> 16), byte(v >> 8), byte(v)} }
		seg := func(num uint32, typ byte, refs []byte, data []byte) []byte {
			out := append(u32(num), typ, byte(len(refs)<<5))
			out = append(out, refs...)
			out = append(out, 1)
			out = append(out, u32(uint32(len(data)))...)
			return append(out, data...)
		}
		for _, dims := range [][2]uint32{{0, 0xffffffff}, {0xffffffff, 0}, {0, 1 << 31}} {
			var body []byte
			body = append(body, seg(0, 48, nil, append(append(u32(64), u32(64)...), make([]byte, 11)...))...)
			pd := append([]byte{0, 4, 4}, u32(32)...)
			body = append(body, seg(1, 16, nil, append(pd, make([]byte, 40)...))...)
			hr := append(append(append(u32(64), u32(64)...), u32(0)...), u32(0)...)
			hr = append(hr, 0, 1) // region flags; halftone flags: MMR
			hr = append(hr, u32(dims[0])...)
			hr = append(hr, u32(dims[1])...)
			hr = append(hr, make([]byte, 8)...)
			hr = append(hr, 1, 0, 0, 0)
			hr = append(hr, make([]byte, 13)...)
			body = append(body, seg(2, 22, []byte{1}, hr)...)
			body = append(body, seg(3, 49, nil, nil)...)
			// the source stops serving once the bound is exceeded, so that a
			// regression costs seconds, not minutes
			work0 := core.WorkNow()
			f, _ := pdf.MakeFilter("JBIG2Decode", nil)
			done := make(chan int, 1)
			go func() {
				n := 0
				rc, err := f.Decode(pdf.V2_0, bytes.NewReader(body), membudget.New(8<<20+1024*int64(len(body))))
				if err == nil {
					b, _ := io.ReadAll(rc)
					n = len(b)
					rc.Close()
				}
				done <- n
			}()
			bound := workBound("JBIG2Decode", 8<<20+1024*int64(len(body)), int64(len(body)), 512)
			for {
				select {
				case <-done:
				case <-time.After(50 * time.Millisecond):
					if core.WorkNow()-work0 <= bound {
						continue
					}
				}
				break
			}
			if ticks := core.WorkNow() - work0; ticks > bound {
				e.Fail("work", map[string]string{"filter": "JBIG2Decode"}, "halftone grid %dx%d: more than %d work ticks for a %d byte stream", dims[0], dims[1], bound, len(body))
				return
			}
		}
	},
	"type-confused-decodeparms": func(e *core.Env) {
		g := &getter{meta: pdf.MetaInfo{Version: pdf.V1_7}, objs: map[pdf.Reference]pdf.Native{}}
		for _, d := range []pdf.Dict{
			{"Filter": pdf.Name("FlateDecode"), "DecodeParms": pdf.Integer(3)},
			{"Filter": pdf.Array{pdf.Name("FlateDecode")}, "DecodeParms": pdf.Integer(3)},
			{"Filter": pdf.Array{pdf.Name("FlateDecode")}, "DecodeParms": pdf.Array{pdf.Name("X")}},
			{"Filter": pdf.Array{pdf.Integer(1)}},
			{"Filter": pdf.Integer(7)},
		} {
			rc, err := pdf.DecodeStream(g, nil, pdf.NewStream(gen.Clone(d).(pdf.Dict), []byte("x")))
			if err == nil {
				_, err = io.ReadAll(rc)
				rc.Close()
			}
			if err != nil && !pdf.IsMalformed(err) {
				e.Fail("not-malformed", map[string]string{"at": "build", "err": errShape(err)}, "dict %s: %v", gen.Show(d), err)
				return
			}
		}
	},
	"dct-producer-released": func(e *core.Env) {
		g := &getter{meta: pdf.MetaInfo{Version: pdf.V1_7}, objs: map[pdf.Reference]pdf.Native{}}
		img := image.NewGray(image.Rect(0, 0, 64, 64))
		for i := range img.Pix {
			img.Pix[i] = byte(i * 7)
		}
		var buf bytes.Buffer
		jpeg.Encode(&buf, img, nil)
		hexed := []byte(fmt.Sprintf("%x>", buf.Bytes()))
		cases := []struct {
			dict    pdf.Dict
			body    []byte
			closeAt int
		}{
			{pdf.Dict{"Filter": pdf.Array{pdf.Name("DCTDecode"), pdf.Name("FlateDecode")}}, buf.Bytes(), -1},    // second stage fails to build
			{pdf.Dict{"Filter": pdf.Array{pdf.Name("DCTDecode"), pdf.Name("NoSuchFilter")}}, buf.Bytes(), -1},   // unknown filter after DCT
			{pdf.Dict{"Filter": pdf.Array{pdf.Name("DCTDecode"), pdf.Name("RunLengthDecode")}}, buf.Bytes(), 1}, // early close, DCT not outermost
			{pdf.Dict{"Filter": pdf.Array{pdf.Name("ASCIIHexDecode"), pdf.Name("DCTDecode")}}, hexed, 1},        // early close, DCT outermost
			{pdf.Dict{"Filter": pdf.Name("DCTDecode")}, buf.Bytes(), 0},                                         // closed without reading
		}
		for _, c := range cases {
			leaked := e.InBubble(func() {
				rc, err := pdf.DecodeStream(g, nil, pdf.NewStream(gen.Clone(c.dict).(pdf.Dict), c.body))
				if err != nil {
					return
				}
				b := make([]byte, 16)
				for i := 0; i < c.closeAt; i++ {
					rc.Read(b)
				}
				if c.closeAt < 0 {
					io.ReadAll(rc)
				}
				rc.Close()
			})
			if leaked {
				e.Fail("goroutine-leak", map[string]string{}, "dict %s closeAt=%d: a helper goroutine is still blocked after Close / after DecodeStream failed", gen.Show(c.dict), c.closeAt)
				return
			}
		}
	},
}

// The work bound is K * (per-stream budget + output), where the per-stream
// budget is the documented affine function of the raw length (8 MiB + 1 KiB
// per byte, capped) that also bounds memory: an image that fits the budget may
// legitimately be traversed a bounded number of times.  K is per decoder family
// and was calibrated on the unchanged tree (VSIM_CALIB=1): the largest ratios
// seen were 10.5 (DCT: 64 capped passes over a progressive image of maximal
// size; about 13 is possible by construction), 208 (JBIG2: its own allowance of
// 64M + 4096/byte pixel operations, at up to 28 ticks per charged operation in
// symbol dictionaries) and 33 ticks per output byte for CCITTFax.
// What the bound excludes is work that keeps growing without matching input or
// output: one more pass over the image per 12-byte scan, one loop iteration per
// unit of a 32-bit header field, and the like.
func workBound(last pdf.Name, budget, in, out int64) int64 {
	switch last {
	case "DCTDecode":
		return 24 * (budget + out)
	case "JBIG2Decode":
		return 512 * (budget + out)
	}
	// Byte-oriented decoders (Flate, LZW, RunLength, ASCII85, ASCIIHex,
	// CCITTFax) hold no image in memory that they could traverse repeatedly:
	// their work is bounded by what goes in and what comes out.  The largest
	// ratio seen on the unchanged tree is 33 ticks per byte (CCITTFax); the
	// constant covers tables and the per-row set-up at the widest geometry.
	return 256*(in+out) + 64<<20
}

// effectiveNames returns the filter chain that the dictionary really asks for
// (parameter tampering may have replaced /Filter after names was drawn).
func effectiveNames(g *getter, dict pdf.Dict, drawn []pdf.Name, direct bool) ([]pdf.Name, bool) {
	if direct {
		return drawn[:1], true
	}
	res := func(o pdf.Object) pdf.Object {
		for i := 0; i < 8; i++ {
			ref, isRef := o.(pdf.Reference)
			if !isRef {
				return o
			}
			o = g.objs[ref]
		}
		return nil
	}
	switch f := res(dict["Filter"]).(type) {
	case pdf.Name:
		return []pdf.Name{f}, true
	case pdf.Array:
		var out []pdf.Name
		for _, x := range f {
			n, ok := res(x).(pdf.Name)
			if !ok {
				return nil, false
			}
			out = append(out, n)
		}
		return out, len(out) > 0
	}
	return nil, false
}

// workQualifies: stages before the last one must not expand.
func workQualifies(names []pdf.Name) bool {
	if len(names) == 0 {
		return false
	}
	for _, n := range names[:len(names)-1] {
		if n != "ASCIIHexDecode" && n != "ASCII85Decode" {
			return false
		}
	}
	return true
}

var calibMax = map[string]float64{}

func calib(ticks, in, out, budget int64, names []pdf.Name, closed, capped bool) {
	if os.Getenv("VSIM_CALIB") == "" || len(names) == 0 {
		return
	}
	key := fmt.Sprint(names[len(names)-1], " n=", len(names), " closed=", closed, " capped=", capped)
	r := float64(ticks) / float64(budget+out)
	if r > calibMax[key] && ticks > 100000 {
		calibMax[key] = r
		f, _ := os.OpenFile(fmt.Sprintf("/tmp/c08calib.%d", os.Getpid()), os.O_APPEND|os.O_CREATE|os.O_WRONLY, 0o644)
		fmt.Fprintf(f, "%s\tratio=%.1f\tticks=%d\tin=%d\tout=%d\tbudget=%d\tnames=%v\n", key, r, ticks, in, out, budget, names)
		f.Close()
	}
}

// jpegMaxOutput walks the marker segments of a JPEG up to the first frame
// header and returns width*height*4 (no colour conversion produces more than
// four bytes per pixel) plus one MCU row of slack; -1 if no frame header is
// found where the syntax requires one.
func jpegMaxOutput(b []byte) int64 {
	if len(b) < 4 || b[0] != 0xff || b[1] != 0xd8 {
		return -1
	}
	i := 2
	for i+4 <= len(b) {
		if b[i] != 0xff {
			return -1
		}
		for i < len(b) && b[i] == 0xff {
			i++ // fill bytes
		}
		if i >= len(b) {
			return -1
		}
		m := b[i]
		i++
		if m == 0xd8 || m == 0x01 || m >= 0xd0 && m <= 0xd7 {
			continue
		}
		if i+2 > len(b) {
			return -1
		}
		n := int(b[i])<<8 | int(b[i+1])
		if n < 2 || i+n > len(b) {
			return -1
		}
		if m >= 0xc0 && m <= 0xcf && m != 0xc4 && m != 0xc8 && m != 0xcc {
			if n < 8 {
				return -1
			}
			h := int64(b[i+3])<<8 | int64(b[i+4])
			w := int64(b[i+5])<<8 | int64(b[i+6])
			if h == 0 {
				return -1 // height defined later by DNL
			}
			return (w+64)*(h+64)*4 + 1<<16
		}
		if m == 0xda || m == 0xd9 {
			return -1
		}
		i += n
	}
	return -1
}

// jbig2MaxOutput walks the segment headers of an embedded JBIG2 stream and
// returns the size of the page bitmap declared by its only page information
// segment; -1 if there is none or more than one, if the height is unknown, or
// if the walk cannot follow the stream.
func jbig2MaxOutput(b []byte) int64 {
	out := int64(-1)
	i := 0
	for i < len(b) {
		if i+6 > len(b) {
			return -1
		}
		num := uint32(b[i])<<24 | uint32(b[i+1])<<16 | uint32(b[i+2])<<8 | uint32(b[i+3])
		flags := b[i+4]
		typ := flags & 0x3f
		i += 5
		cnt := int(b[i] >> 5)
		i++
		if cnt == 7 {
			if i+3 > len(b) {
				return -1
			}
			cnt = int(b[i-1]&0x1f)<<24 | int(b[i])<<16 | int(b[i+1])<<8 | int(b[i+2])
			i += 3
			if cnt > 1<<16 {
				return -1
			}
			i += (cnt + 8) / 8
		}
		switch {
		case num <= 256:
			i += cnt
		case num <= 65536:
			i += 2 * cnt
		default:
			i += 4 * cnt
		}
		if flags&0x40 != 0 {
			i += 4
		} else {
			i++
		}
		if i+4 > len(b) {
			return -1
		}
		n := int64(b[i])<<24 | int64(b[i+1])<<16 | int64(b[i+2])<<8 | int64(b[i+3])
		i += 4
		if n == 0xffffffff || int64(i)+n > int64(len(b)) {
			return -1
		}
		if typ == 48 {
			if out >= 0 || n < 19 {
				return -1
			}
			w := int64(b[i])<<24 | int64(b[i+1])<<16 | int64(b[i+2])<<8 | int64(b[i+3])
			h := int64(b[i+4])<<24 | int64(b[i+5])<<16 | int64(b[i+6])<<8 | int64(b[i+7])
			if h == 0xffffffff {
				return -1
			}
			out = (w+7)/8*h + 1<<16
		}
		i += int(n)
	}
	return out
}
