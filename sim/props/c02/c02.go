// Package c02 checks property C02: what the Writer wrote is what the Reader
// returns, for every write program, configuration, sink kind and read
// personality.
package c02

import (
	"bytes"
	"fmt"
	"io"
	"time"

	"seehuhn.de/go/pdf"
	"verif/sim/core"
	"verif/sim/gen"
	"verif/sim/simdisk"
	"verif/sim/simio"
	"verif/sim/wprog"
)

func init() {
	core.Register(&core.Prop{
		ID:    "C02",
		Level: "exploration",
		Rule: "one case = one write program (1..24 ops over Alloc/Put/Put(*Stream)/WriteCompressed/OpenStream+chunked Write+Put-while-open/Writer.Get/explicit numbers and generations, also for streams; pre-encoded DCT/JBIG2/CCITT streams; now and then thousands of objects, objects with hundreds of sibling containers, and invalid requests - a wrong caller-supplied /Length, WriteCompressed with a non-zero generation - that must be refused or served correctly) x configuration " +
			"(9 versions x HumanReadable x 5 sink kinds x password sets x ID) x read personality (EOF-with-data or not, password used, error-handling mode); " +
			"non-trivial = the Writer accepted the program and at least one drawn object or stream was written; distinct = different hash of (configuration, sequence of operation kinds and filter chains, read personality)",
		Assumptions: []string{
			"generated programs use only operations the API documents as valid; programs the Writer rejects are counted as skipped, not judged",
			"values are compared semantically (nil dict entry = absent, nil array/dict = null), never byte-wise",
			"stream dictionaries are compared modulo /Length, /Filter, /DecodeParms",
		},
		Real:     []string{"seehuhn.de/go/pdf Writer, Reader, scanner, filters, crypto (working tree)", "compress/zlib", "crypto/*"},
		Stub:     []string{"sink (simdisk: 5 kinds)", "io.ReaderAt (simdisk.Handle: 2 EOF personalities)", "crypto/rand.Reader (tape-seeded)", "write chunking (simio schedule)"},
		Quick:    core.Budget{Runs: 160000, Secs: 150},
		Thorough: core.Budget{Runs: 3000000, Secs: 900},
		Run:      Run,
		Corners:  corners,
	})
}

var restrict = wprog.Restrict{Bulk: true, WrongLength: true}

func Run(e *core.Env) {
	cfg := wprog.DrawConfig(e.T, &restrict)
	disk := simdisk.NewDisk()
	res := wprog.Execute(e.T, cfg, &restrict, disk.Sink(cfg.Sink))
	e.Note("config", cfg.String())
	e.Note("ops", res.OpNames)
	e.Steps(disk.Writes + disk.Seeks)
	for k, v := range res.Probes {
		for i := 0; i < v; i++ {
			e.Probe(k)
		}
	}
	if res.Err != nil && res.ExpectedReject {
		e.Probe("invalid request refused by the Writer")
		e.Nontrivial()
		return
	}
	if res.Err != nil {
		e.Skip("writer rejected " + res.ErrOp)
		e.Note("writer error", fmt.Sprintf("%s: %v", res.ErrOp, res.Err))
		return
	}
	if disk.Seeks > 0 {
		e.Probe("sink seeks (placeholder method 2)")
	}
	ReadBack(e, res, disk.Data)
}

// ReadBack reopens the image and compares it with the model.
func ReadBack(e *core.Env, res *wprog.Result, image []byte) {
	t := e.T
	cfg := res.Cfg
	h := simdisk.NewHandle(image)
	h.EOFAtEnd = t.Bool("read.eofAtEnd", 1, 2)
	opt := &pdf.ReaderOptions{}
	pwKind := "none"
	if cfg.Encrypted() {
		owner := cfg.OwnerPW
		if owner == "" {
			owner = cfg.UserPW
		}
		choices := []string{"user", "owner"}
		if cfg.UserPW == "" {
			choices = []string{"none", "owner"}
		}
		pwKind = choices[t.Draw("read.pw", len(choices))]
		switch pwKind {
		case "user":
			opt.Password = cfg.UserPW
		case "owner":
			opt.Password = owner
		}
	}
	opt.ErrorHandling = pdf.ReaderErrorHandling(t.Draw("read.mode", 3))
	e.Note("read", fmt.Sprintf("eofAtEnd=%v pw=%s mode=%d", h.EOFAtEnd, pwKind, opt.ErrorHandling))
	e.Sig(res.Shape(), h.EOFAtEnd, pwKind, int(opt.ErrorHandling))
	if len(res.Order) > 1 {
		e.Nontrivial()
	}

	attrs := func(kv ...string) map[string]string {
		m := map[string]string{}
		for i := 0; i+1 < len(kv); i += 2 {
			m[kv[i]] = kv[i+1]
		}
		return m
	}

	r, err := pdf.NewReader(h, int64(len(image)), opt)
	if err != nil {
		e.Fail("open-failed", nil, "NewReader on a file the Writer produced: %v", err)
		return
	}
	if opt.ErrorHandling == pdf.ErrorHandlingReport && len(r.Errors) > 0 {
		e.Fail("open-reports-errors", nil, "NewReader reports errors on a file the Writer produced: %v", r.Errors[0])
		return
	}
	meta := r.GetMeta()
	if meta.Version != cfg.Version {
		e.Fail("version", nil, "version %s read back as %s", cfg.Version, meta.Version)
		return
	}
	needID := cfg.GiveID > 0 || cfg.Encrypted() || cfg.Version >= pdf.V2_0
	if needID {
		if len(meta.ID) != 2 || len(res.ID) != 2 || !bytes.Equal(meta.ID[0], res.ID[0]) || !bytes.Equal(meta.ID[1], res.ID[1]) {
			e.Fail("id", nil, "ID %x read back as %x", res.ID, meta.ID)
			return
		}
	} else if meta.ID != nil {
		e.Fail("id", nil, "no ID written but %x read back", meta.ID)
		return
	}
	if meta.Catalog == nil || meta.Catalog.Pages != res.PagesRef {
		e.Fail("catalog", nil, "Catalog.Pages %v read back as %+v", res.PagesRef, meta.Catalog)
		return
	}
	wantMeta := ""
	if cfg.Meta > 0 {
		wantMeta = wprog.MetaTitle
	}
	if got := wprog.MetadataTitle(meta.Catalog.Metadata); got != wantMeta {
		e.Fail("catalog", nil, "document metadata (meta=%d): title %q written, %q read back", cfg.Meta, wantMeta, got)
		return
	}
	if cfg.Meta > 0 {
		e.Probe("document metadata round trip")
	}
	if d := infoDiff(res.Info, meta.Info); d != "" {
		e.Fail("info", nil, "Info: %s", d)
		return
	}
	if want := res.Catalog; want != nil {
		got := meta.Catalog
		if want.PageLayout != got.PageLayout || want.PageMode != got.PageMode {
			e.Fail("catalog", nil, "catalog PageLayout/PageMode written %q/%q, read back %q/%q", want.PageLayout, want.PageMode, got.PageLayout, got.PageMode)
			return
		}
		for name, pair := range map[string][2]pdf.Object{"ViewerPreferences": {want.ViewerPreferences, got.ViewerPreferences}, "MarkInfo": {want.MarkInfo, got.MarkInfo}, "URI": {want.URI, got.URI}} {
			w, g := pair[0], pair[1]
			if ref, isRef := g.(pdf.Reference); isRef {
				g, _ = r.Get(ref, true)
			}
			if d := gen.Diff(w, g, ""); d != "" {
				e.Fail("catalog", nil, "catalog /%s: %s", name, d)
				return
			}
		}
		e.Probe("catalog fields round trip")
	}

	for _, ref := range res.SortedRefs() {
		exp := res.Written[ref]
		got, err := r.Get(ref, true)
		if err != nil {
			e.Fail("get-error", attrs("how", exp.How), "Get(%s) [%s]: %v", ref, exp.How, err)
			return
		}
		if !exp.IsStream {
			if d := gen.Diff(exp.Obj, got, ""); d != "" {
				e.Fail("value-mismatch", attrs("how", exp.How), "Get(%s) [%s]: %s", ref, exp.How, d)
				return
			}
			continue
		}
		stm, ok := got.(*pdf.Stream)
		if !ok {
			e.Fail("value-mismatch", attrs("how", exp.How), "Get(%s) [%s]: expected stream, got %s", ref, exp.How, gen.Show(got))
			return
		}
		if d := wprog.DictDiff(exp.Dict, stm.Dict); d != "" {
			e.Fail("stream-dict-mismatch", attrs("how", exp.How), "Get(%s) [%s %v]: stream dict %s", ref, exp.How, exp.Filters, d)
			return
		}
		rc, err := pdf.DecodeStream(r, nil, stm)
		if err != nil {
			e.Fail("decode-error", attrs("how", exp.How), "DecodeStream(%s) [%s %v]: %v", ref, exp.How, exp.Filters, err)
			return
		}
		sched := simio.NewSchedule(t, fmt.Sprintf("read.%d", ref.Number()), 0)
		data, err := simio.Drain(rc, sched, len(exp.Body)+1<<20)
		rc.Close()
		if err != nil {
			e.Fail("decode-error", attrs("how", exp.How), "reading stream %s [%s %v]: %v", ref, exp.How, exp.Filters, err)
			return
		}
		if !bytes.Equal(data, exp.Body) {
			e.Fail("stream-bytes-mismatch", attrs("how", exp.How), "stream %s [%s %v]: %d bytes written, %d read back; first difference at %d",
				ref, exp.How, exp.Filters, len(exp.Body), len(data), firstDiff(exp.Body, data))
			return
		}
	}
	for _, ref := range append(append([]pdf.Reference(nil), res.Unwritten...), res.Foreign...) {
		if _, written := res.Written[ref]; written {
			continue
		}
		got, err := r.Get(ref, true)
		if err != nil || got != nil {
			e.Fail("unwritten-not-null", nil, "Get(%s) of a reference never written: %s, %v", ref, gen.Show(got), err)
			return
		}
		e.Probe("unwritten reference read")
	}
	if d := res.ArgsModified(); d != "" {
		e.Fail("argument-modified", nil, "%s", d)
		return
	}
	if len(res.GetDiffs) > 0 {
		e.Fail("writer-get-mismatch", nil, "%s", res.GetDiffs[0])
		return
	}
	e.Steps(h.Calls)
}

func firstDiff(a, b []byte) int {
	n := min(len(a), len(b))
	for i := 0; i < n; i++ {
		if a[i] != b[i] {
			return i
		}
	}
	return n
}

func infoDiff(want, got *pdf.Info) string {
	empty := func(i *pdf.Info) bool {
		if i == nil {
			return true
		}
		_, trapped := i.Trapped.Get()
		return i.Title == "" && i.Author == "" && i.Subject == "" && i.Keywords == "" && i.Creator == "" && i.Producer == "" &&
			i.CreationDate.IsZero() && i.ModDate.IsZero() && !trapped && len(i.Custom) == 0
	}
	if empty(want) {
		if !empty(got) {
			return fmt.Sprintf("none written, got %+v", *got)
		}
		return ""
	}
	if got == nil {
		return fmt.Sprintf("written %+v, read back nil", *want)
	}
	if want.Title != got.Title || want.Author != got.Author || want.Keywords != got.Keywords || want.Subject != got.Subject || want.Creator != got.Creator || want.Producer != got.Producer {
		return fmt.Sprintf("written %+v, read back %+v", *want, *got)
	}
	if !time.Time(want.CreationDate).Equal(time.Time(got.CreationDate)) {
		return fmt.Sprintf("CreationDate written %v, read back %v", want.CreationDate, got.CreationDate)
	}
	if !time.Time(want.ModDate).Equal(time.Time(got.ModDate)) {
		return fmt.Sprintf("ModDate written %v, read back %v", want.ModDate, got.ModDate)
	}
	if len(want.Custom) != len(got.Custom) {
		return fmt.Sprintf("Custom written %v, read back %v", want.Custom, got.Custom)
	}
	for k, v := range want.Custom {
		if got.Custom[k] != v {
			return fmt.Sprintf("Custom[%s] written %q, read back %q", k, v, got.Custom[k])
		}
	}
	return ""
}

var _ = io.EOF
