package c02

import (
	"bytes"
	"fmt"
	"io"

	"seehuhn.de/go/pdf"
	"verif/sim/core"
	"verif/sim/simdisk"
)

// Hand-written scenarios: one per defect this check has found (so that it is
// reported again if it ever returns) plus corner configurations.
var corners = map[string]func(e *core.Env){
	// fixed 675ecfc: RC4 string encryption XORed the caller's String in place.
	"rc4-string-written-twice": func(e *core.Env) {
		for _, v := range []pdf.Version{pdf.V1_1, pdf.V1_4} {
			disk := simdisk.NewDisk()
			w, err := pdf.NewWriter(disk.Sink(simdisk.AppendOnly), v, &pdf.WriterOptions{UserPassword: "secret"})
			if err != nil {
				e.Skip("NewWriter: " + err.Error())
				return
			}
			s := pdf.String("hello world")
			r1, r2 := w.Alloc(), w.Alloc()
			w.Put(r1, pdf.Array{s})
			w.Put(r2, pdf.Dict{"S": s})
			if string(s) != "hello world" {
				e.Fail("argument-modified", nil, "RC4 (v%s): String %q after being written", v, []byte(s))
				return
			}
			pages := w.Alloc()
			w.Put(pages, pdf.Dict{"Type": pdf.Name("Pages"), "Kids": pdf.Array{}, "Count": pdf.Integer(0)})
			w.GetMeta().Catalog.Pages = pages
			if err := w.Close(); err != nil {
				e.Skip("Close: " + err.Error())
				return
			}
			r, err := pdf.NewReader(simdisk.NewHandle(disk.Data), int64(len(disk.Data)), &pdf.ReaderOptions{Password: "secret"})
			if err != nil {
				e.Fail("open-failed", nil, "%v", err)
				return
			}
			o2, _ := r.Get(r2, true)
			d, _ := o2.(pdf.Dict)
			if got, _ := d["S"].(pdf.String); string(got) != "hello world" {
				e.Fail("value-mismatch", map[string]string{"how": "put"}, "second copy of the string reads back as %q", []byte(got))
			}
		}
	},
	// fixed f750aef: ASCII85 lost the tail of the final group for small reads.
	"ascii85-read-one-byte-at-a-time": func(e *core.Env) {
		for n := 0; n <= 9; n++ {
			body := []byte("abcdefghi")[:n]
			disk := simdisk.NewDisk()
			w, _ := pdf.NewWriter(disk.Sink(simdisk.Seekable), pdf.V1_7, nil)
			ref := w.Alloc()
			ws, err := w.OpenStream(ref, nil, pdf.FilterASCII85{})
			if err != nil {
				e.Skip(err.Error())
				return
			}
			ws.Write(body)
			ws.Close()
			pages := w.Alloc()
			w.Put(pages, pdf.Dict{"Type": pdf.Name("Pages"), "Kids": pdf.Array{}, "Count": pdf.Integer(0)})
			w.GetMeta().Catalog.Pages = pages
			w.Close()
			r, err := pdf.NewReader(simdisk.NewHandle(disk.Data), int64(len(disk.Data)), nil)
			if err != nil {
				e.Fail("open-failed", nil, "%v", err)
				return
			}
			obj, _ := r.Get(ref, true)
			stm, ok := obj.(*pdf.Stream)
			if !ok {
				e.Fail("value-mismatch", map[string]string{"how": "openstream"}, "not a stream")
				return
			}
			for _, bs := range []int{1, 2, 3} {
				rc, err := pdf.DecodeStream(r, nil, stm)
				if err != nil {
					e.Fail("decode-error", map[string]string{"how": "openstream"}, "%v", err)
					return
				}
				var out []byte
				buf := make([]byte, bs)
				for i := 0; i < 100; i++ {
					k, err := rc.Read(buf)
					out = append(out, buf[:k]...)
					if err == io.EOF {
						break
					}
					if err != nil {
						e.Fail("decode-error", map[string]string{"how": "openstream"}, "%v", err)
						return
					}
				}
				if !bytes.Equal(out, body) {
					e.Fail("stream-bytes-mismatch", map[string]string{"how": "openstream"}, "ASCII85 body %q read with %d-byte buffers gives %q", body, bs, out)
					return
				}
			}
		}
		e.Note("scenario", fmt.Sprint("ASCII85 bodies of 0..9 bytes read back with 1,2,3-byte buffers"))
	},
}
