// Package c16 checks property C16: the page tree keeps page order, counts and
// effective attributes for every interleaving of appends to nested range
// writers.  Each open pagetree.Writer is a logical task; the tape-driven
// scheduler interleaves their steps.
package c16

import (
	"fmt"
	"sort"

	"seehuhn.de/go/pdf"
	"seehuhn.de/go/pdf/pagetree"
	"verif/sim/core"
	"verif/sim/gen"
	"verif/sim/simdisk"
	"verif/sim/tape"
)

func init() {
	core.Register(&core.Prop{
		ID:    "C16",
		Level: "exploration",
		Rule: "one case = one schedule of steps over a tree of open pagetree.Writers (root and ranges created by NewRange at arbitrary positions, nested up to 4 deep): append a page dictionary (attributes MediaBox, CropBox, Rotate, Resources drawn from small sets, incl. absent), append a burst of pages, open a range, register a NextPageNumber callback, close a range (a parent may close with children still open); " +
			"totals from 1 to about 700 pages in the quick tier and about 4500 in the thorough tier with a bias to 16^k-1, 16^k, 16^k+1; version and sink kind drawn. After reopening: iterator order, raw tree walk (every /Count, every /Parent, <= 16 kids, no node listed twice), effective attributes after inheritance by an inheritance walk of our own, callbacks. " +
			"non-trivial = at least 2 writers and 3 pages; distinct = hash of the step sequence.",
		Assumptions: []string{
			"a NextPageNumber callback reports the final 0-based position of the next page appended directly to that writer after the registration, or -1 if the writer is closed first",
			"effective attributes are computed by our own walk (nearest ancestor that has the key), independent of pagetree.Iterator",
			"attribute values that tie in the hoisting heuristic are chosen in Go map order, so output bytes differ between identical runs; the oracle is semantic",
		},
		Real:     []string{"seehuhn.de/go/pdf/pagetree Writer (merge, collapse, inherit, futureInt), Iterator, GetPage, NumPages; pdf.Writer/Reader (working tree)"},
		Stub:     []string{"order of the writers' steps (tape-driven)", "sink (simdisk)"},
		Quick:    core.Budget{Runs: 24000, Secs: 150},
		Thorough: core.Budget{Runs: 1500000, Secs: 900},
		Run:      Run,
		Corners:  corners,
	})
}

type item struct {
	page *pageInfo
	rng  *writer
}

type pageInfo struct {
	id    int
	ref   pdf.Reference
	attrs pdf.Dict // MediaBox, CropBox, Rotate, Resources as given
}

type callback struct {
	w        *writer
	afterLen int // number of items in w at registration
	got      []int
}

type writer struct {
	id     int
	w      *pagetree.Writer
	items  []item
	closed bool
	depth  int
	parent *writer
}

var mediaBoxes = []pdf.Object{pdf.Array{pdf.Integer(0), pdf.Integer(0), pdf.Integer(612), pdf.Integer(792)}, pdf.Array{pdf.Integer(0), pdf.Integer(0), pdf.Integer(595), pdf.Integer(842)}, pdf.Array{pdf.Integer(0), pdf.Integer(0), pdf.Real(100.5), pdf.Integer(200)}}

// two of the crop boxes coincide with media boxes: "CropBox equals MediaBox"
// is a redundancy somewhere in the tree, but not for every page below it
var cropBoxes = []pdf.Object{nil, pdf.Array{pdf.Integer(10), pdf.Integer(10), pdf.Integer(190), pdf.Integer(190)}, pdf.Array{pdf.Integer(0), pdf.Integer(0), pdf.Integer(50), pdf.Integer(50)},
	pdf.Array{pdf.Integer(0), pdf.Integer(0), pdf.Integer(612), pdf.Integer(792)}, pdf.Array{pdf.Integer(0), pdf.Integer(0), pdf.Integer(595), pdf.Integer(842)}}
var rotates = []pdf.Object{nil, pdf.Integer(0), pdf.Integer(90), pdf.Integer(180), pdf.Integer(270)}
var resources = []pdf.Object{nil, pdf.Dict{}, pdf.Dict{"ProcSet": pdf.Array{pdf.Name("PDF")}}, pdf.Dict{"ProcSet": pdf.Array{pdf.Name("PDF"), pdf.Name("Text")}}}

func Run(e *core.Env) {
	t := e.T
	version := tape.Pick(t, "version", pdf.V1_7, pdf.V1_2, pdf.V2_0, pdf.V1_4)
	sink := simdisk.SinkKind(t.Draw("sink", int(simdisk.NumSinkKinds)))
	human := t.Bool("human", 1, 4)
	disk := simdisk.NewDisk()
	out, err := pdf.NewWriter(disk.Sink(sink), version, &pdf.WriterOptions{HumanReadable: human})
	if err != nil {
		e.Skip("NewWriter: " + err.Error())
		return
	}
	rm := pdf.NewResourceManager(out)
	root := &writer{id: 0, w: pagetree.NewWriter(out, rm)}
	writers := []*writer{root}
	var cbs []*callback
	nextID := 0
	var steps []string
	// per-run attribute bias: hoisting patterns need runs of equal values
	bias := [4]int{t.Draw("bias.mb", 3), t.Draw("bias.cb", 3), t.Draw("bias.rot", 5), t.Draw("bias.res", 4)}
	pick := func(l string, vals []pdf.Object, b int) pdf.Object {
		if t.Bool(l+".biased", 2, 3) {
			return vals[b%len(vals)]
		}
		return vals[t.Draw(l, len(vals))]
	}
	appendPage := func(w *writer, l string) bool {
		p := &pageInfo{id: nextID, ref: out.Alloc(), attrs: pdf.Dict{}}
		nextID++
		dict := pdf.Dict{"Type": pdf.Name("Page"), "VerifID": pdf.Integer(p.id)}
		for i, spec := range []struct {
			key  pdf.Name
			vals []pdf.Object
		}{{"MediaBox", mediaBoxes}, {"CropBox", cropBoxes}, {"Rotate", rotates}, {"Resources", resources}} {
			v := pick(fmt.Sprintf("%s.%s", l, spec.key), spec.vals, bias[i])
			if v != nil {
				p.attrs[spec.key] = gen.Clone(v)
				dict[spec.key] = gen.Clone(v)
			}
		}
		if err := w.w.AppendPageDict(p.ref, dict); err != nil {
			e.Fail("append-error", nil, "AppendPageDict on writer %d: %v", w.id, err)
			return false
		}
		w.items = append(w.items, item{page: p})
		return true
	}
	maxPages := 700
	if e.Tier == "thorough" {
		maxPages = 4500
	}
	target := 1 + t.Draw("target", 40)
	switch t.Weighted("targetkind", 5, 3, 1) {
	case 1:
		target = tape.Pick(t, "target16", 15, 16, 17, 31, 32, 33, 255, 256, 257, 240, 272)
	case 2:
		target = tape.Pick(t, "targetbig", 600, 4095, 4096, 4097, 1000)
	}
	if target > maxPages {
		target = maxPages
	}
	open := func() []*writer {
		var o []*writer
		for _, w := range writers {
			if !w.closed {
				o = append(o, w)
			}
		}
		return o
	}
	closeWriter := func(w *writer) bool {
		var rec func(x *writer)
		rec = func(x *writer) {
			x.closed = true
			for _, it := range x.items {
				if it.rng != nil && !it.rng.closed {
					rec(it.rng)
				}
			}
		}
		_, err := w.w.Close()
		if err != nil {
			e.Fail("close-error", nil, "Close of range writer %d: %v", w.id, err)
			return false
		}
		rec(w)
		return true
	}
	for step := 0; nextID < target && step < 6000; step++ {
		l := fmt.Sprintf("s%d", step)
		o := open()
		w := o[t.Draw(l+".w", len(o))]
		switch t.Weighted(l+".op", 8, 3, 3, 2, 2) {
		case 0:
			if !appendPage(w, l) {
				return
			}
			steps = append(steps, fmt.Sprintf("w%d:page", w.id))
		case 1: // burst
			n := tape.Pick(t, l+".burst", 2, 5, 15, 16, 17, 40, 10, 240, 250, 255)
			for k := 0; k < n && nextID < target; k++ {
				if !appendPage(w, fmt.Sprintf("%s.b%d", l, k)) {
					return
				}
			}
			steps = append(steps, fmt.Sprintf("w%d:burst%d", w.id, n))
		case 2:
			if w.depth >= 4 || len(writers) >= 12 {
				continue
			}
			sub, err := w.w.NewRange()
			if err != nil {
				e.Fail("range-error", nil, "NewRange on writer %d: %v", w.id, err)
				return
			}
			nw := &writer{id: len(writers), w: sub, depth: w.depth + 1, parent: w}
			writers = append(writers, nw)
			w.items = append(w.items, item{rng: nw})
			steps = append(steps, fmt.Sprintf("w%d:range->w%d", w.id, nw.id))
		case 3:
			cb := &callback{w: w, afterLen: len(w.items)}
			cbs = append(cbs, cb)
			w.w.NextPageNumber(func(n int) { cb.got = append(cb.got, n) })
			steps = append(steps, fmt.Sprintf("w%d:callback", w.id))
		case 4:
			if w == root {
				continue
			}
			if !closeWriter(w) {
				return
			}
			steps = append(steps, fmt.Sprintf("w%d:close", w.id))
		}
	}
	if nextID == 0 {
		if !appendPage(root, "final") {
			return
		}
	}
	rootRef, err := root.w.Close()
	if err != nil {
		e.Fail("close-error", nil, "closing the root writer: %v", err)
		return
	}
	out.GetMeta().Catalog.Pages = rootRef
	if err := rm.Close(); err != nil {
		e.Skip("resource manager: " + err.Error())
		return
	}
	if err := out.Close(); err != nil {
		e.Fail("close-error", nil, "Writer.Close: %v", err)
		return
	}
	e.Steps(len(steps))
	e.Sig(steps, version, human)
	if len(steps) > 40 {
		e.Note("steps", append(append([]string{}, steps[:40]...), fmt.Sprintf("… %d more", len(steps)-40)))
	} else {
		e.Note("steps", steps)
	}
	e.Note("pages", nextID)
	if len(writers) >= 2 && nextID >= 3 {
		e.Nontrivial()
	}
	if nextID > 256 {
		e.Probe("more than 256 pages (three tree levels)")
	}
	if len(writers) >= 3 {
		e.Probe("three or more writers")
	}

	// model: document order
	var order []*pageInfo
	var flatten func(w *writer)
	flatten = func(w *writer) {
		for _, it := range w.items {
			if it.page != nil {
				order = append(order, it.page)
			} else {
				flatten(it.rng)
			}
		}
	}
	flatten(root)
	pos := map[int]int{}
	for i, p := range order {
		pos[p.id] = i
	}

	// callbacks
	for i, cb := range cbs {
		want := -1
		for _, it := range cb.w.items[cb.afterLen:] {
			if it.page != nil {
				want = pos[it.page.id]
				break
			}
		}
		if len(cb.got) != 1 {
			e.Fail("callback-count", nil, "NextPageNumber callback %d on writer %d was called %d times (%v), expected once with %d", i, cb.w.id, len(cb.got), cb.got, want)
			return
		}
		if cb.got[0] != want {
			e.Fail("callback-value", nil, "NextPageNumber callback %d on writer %d reported %d, the page's final position is %d", i, cb.w.id, cb.got[0], want)
			return
		}
	}
	if len(cbs) > 0 {
		e.Probe("page-number callbacks checked")
	}

	// reopen
	r, err := pdf.NewReader(simdisk.NewHandle(disk.Data), int64(len(disk.Data)), nil)
	if err != nil {
		e.Fail("reopen", nil, "NewReader: %v", err)
		return
	}
	// 1. iterator order and effective attributes as the iterator reports them
	i := 0
	it := pagetree.NewIterator(r)
	for ref, dict := range it.All() {
		if i >= len(order) {
			e.Fail("order", map[string]string{"via": "iterator"}, "iterator yields more than the %d pages written", len(order))
			return
		}
		p := order[i]
		if ref != p.ref || dict["VerifID"] != pdf.Integer(p.id) {
			e.Fail("order", map[string]string{"via": "iterator"}, "position %d: expected page id %d (%s), iterator yields id %v (%s)", i, p.id, p.ref, dict["VerifID"], ref)
			return
		}
		if msg := attrDiff(p.attrs, dict); msg != "" {
			e.Fail("attributes", map[string]string{"via": "iterator"}, "page id %d at position %d: %s", p.id, i, msg)
			return
		}
		i++
	}
	if it.Err != nil || i != len(order) {
		e.Fail("order", map[string]string{"via": "iterator"}, "iterator yields %d of %d pages (err %v)", i, len(order), it.Err)
		return
	}
	// 2. raw tree walk
	tw := &treeWalk{e: e, r: r, seen: map[pdf.Reference]bool{}, order: order}
	n := tw.node(rootRef, 0, pdf.Dict{}, 0)
	if e.Failed() {
		return
	}
	if n != len(order) || tw.next != len(order) {
		e.Fail("order", map[string]string{"via": "tree"}, "tree holds %d leaves, %d pages were written", n, len(order))
		return
	}
	// 3. NumPages / GetPage
	if np, err := pagetree.NumPages(r); err != nil || np != len(order) {
		e.Fail("count", map[string]string{"via": "NumPages"}, "NumPages = %d (err %v), %d pages written", np, err, len(order))
		return
	}
	for _, k := range []int{0, len(order) / 2, len(order) - 1} {
		ref, dict, err := pagetree.GetPage(r, k)
		if err != nil || ref != order[k].ref {
			e.Fail("order", map[string]string{"via": "GetPage"}, "GetPage(%d) = %s (err %v), expected %s", k, ref, err, order[k].ref)
			return
		}
		if msg := attrDiff(order[k].attrs, dict); msg != "" {
			e.Fail("attributes", map[string]string{"via": "GetPage"}, "GetPage(%d): %s", k, msg)
			return
		}
	}
}

func attrDiff(want pdf.Dict, got pdf.Dict) string {
	for _, key := range []pdf.Name{"MediaBox", "CropBox", "Rotate", "Resources"} {
		w, g := want[key], got[key]
		if key == "Rotate" {
			// absent and 0 are the same rotation
			if w == nil {
				w = pdf.Integer(0)
			}
			if g == nil {
				g = pdf.Integer(0)
			}
		}
		if d := gen.Diff(w, g, ""); d != "" {
			return fmt.Sprintf("effective /%s: given %s, after inheritance %s", key, gen.Show(want[key]), gen.Show(got[key]))
		}
	}
	return ""
}

type treeWalk struct {
	e     *core.Env
	r     *pdf.Reader
	seen  map[pdf.Reference]bool
	order []*pageInfo
	next  int
}

// node walks the subtree and returns the number of leaves below it.
func (tw *treeWalk) node(ref, parent pdf.Reference, inherited pdf.Dict, depth int) int {
	if tw.e.Failed() {
		return 0
	}
	if tw.seen[ref] {
		tw.e.Fail("structure", map[string]string{"kind": "listed-twice"}, "node %s is listed twice in the page tree", ref)
		return 0
	}
	tw.seen[ref] = true
	if depth > 1000 {
		// the property bounds the fan-out, not the depth; this only guards
		// the walk itself (cycles are caught by the seen set)
		tw.e.Fail("structure", map[string]string{"kind": "depth"}, "page tree deeper than 1000 levels")
		return 0
	}
	obj, err := tw.r.Get(ref, true)
	dict, ok := obj.(pdf.Dict)
	if err != nil || !ok {
		tw.e.Fail("structure", map[string]string{"kind": "node"}, "page tree node %s: %v %T", ref, err, obj)
		return 0
	}
	if parent != 0 {
		if dict["Parent"] != parent {
			tw.e.Fail("structure", map[string]string{"kind": "parent"}, "node %s has /Parent %v but is listed by %s", ref, dict["Parent"], parent)
			return 0
		}
	} else if _, has := dict["Parent"]; has {
		tw.e.Fail("structure", map[string]string{"kind": "parent"}, "the root node has a /Parent")
		return 0
	}
	eff := pdf.Dict{}
	for k, v := range inherited {
		eff[k] = v
	}
	for _, key := range []pdf.Name{"MediaBox", "CropBox", "Rotate", "Resources"} {
		if v, has := dict[key]; has && v != nil {
			eff[key] = v
		}
	}
	switch dict["Type"] {
	case pdf.Name("Page"):
		if tw.next >= len(tw.order) {
			tw.e.Fail("order", map[string]string{"via": "tree"}, "more leaves than pages written")
			return 0
		}
		p := tw.order[tw.next]
		if ref != p.ref || dict["VerifID"] != pdf.Integer(p.id) {
			tw.e.Fail("order", map[string]string{"via": "tree"}, "leaf %d of the tree is page id %v (%s), expected id %d (%s)", tw.next, dict["VerifID"], ref, p.id, p.ref)
			return 0
		}
		if msg := attrDiff(p.attrs, eff); msg != "" {
			tw.e.Fail("attributes", map[string]string{"via": "tree"}, "page id %d (leaf %d): %s", p.id, tw.next, msg)
			return 0
		}
		tw.next++
		return 1
	case pdf.Name("Pages"):
		kids, _ := dict["Kids"].(pdf.Array)
		if len(kids) > 16 {
			tw.e.Fail("structure", map[string]string{"kind": "fanout"}, "node %s has %d kids", ref, len(kids))
			return 0
		}
		if len(kids) == 0 {
			tw.e.Fail("structure", map[string]string{"kind": "empty"}, "node %s has no kids", ref)
			return 0
		}
		total := 0
		for _, k := range kids {
			kr, ok := k.(pdf.Reference)
			if !ok {
				tw.e.Fail("structure", map[string]string{"kind": "kid"}, "node %s: kid %v is not a reference", ref, k)
				return 0
			}
			total += tw.node(kr, ref, eff, depth+1)
			if tw.e.Failed() {
				return 0
			}
		}
		if dict["Count"] != pdf.Integer(total) {
			tw.e.Fail("structure", map[string]string{"kind": "count"}, "node %s has /Count %v, %d leaves below it", ref, dict["Count"], total)
			return 0
		}
		return total
	}
	tw.e.Fail("structure", map[string]string{"kind": "type"}, "node %s has /Type %v", ref, dict["Type"])
	return 0
}

var _ = sort.Ints

var corners = map[string]func(e *core.Env){}
