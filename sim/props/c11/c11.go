// Package c11 checks property C11: the Copier reproduces the source object
// graph in the target file.  Two simulated disks: the source image is written
// by the independent serialiser (so that indirect /Filter, /DecodeParms and
// /Length, reference-to-reference chains, dangling and free references exist)
// or by the library's Writer when it has to be encrypted; the target is a real
// Writer with its own version, sink kind and encryption.
package c11

import (
	"bytes"
	"compress/zlib"
	"fmt"
	"io"
	"sort"

	"seehuhn.de/go/pdf"
	"verif/sim/core"
	"verif/sim/gen"
	"verif/sim/revwriter"
	"verif/sim/simdisk"
	"verif/sim/tape"
	"verif/sim/wprog"
)

func init() {
	core.Register(&core.Prop{
		ID:    "C11",
		Level: "exploration",
		Rule: "one case = one source graph (<= 8 nodes: dictionaries, arrays, scalars, streams with Flate/ASCIIHex filters and direct or indirect /Filter, /DecodeParms, /Length, reference-to-reference chains, cycles, shared nodes, dangling and freed references, empty arrays/dictionaries and null entries) " +
			"x source serialisation (independent serialiser with one or two revisions, or the library's Writer with RC4/AES encryption) x target (version, sink kind, encryption) x copy program (Copy, CopyReference, repeated CopyReference, Redirect, target Puts in between, copies issued while a target stream is open). " +
			"After closing and reopening the target, source and target graphs are walked in lock step. non-trivial = at least 3 source nodes copied; distinct = hash of (graph shape, serialisation, target configuration, program).",
		Assumptions: []string{
			"a source reference is identified with the object at the end of its reference-to-reference chain; CopyReference is documented to shorten such chains",
			"dictionary entries with a null value count as absent (PDF semantics); array elements, including nulls and empty containers, must be preserved exactly",
			"stream dictionaries are compared modulo /Length, /Filter, /DecodeParms; stream data is compared after decoding on both sides",
		},
		Real:     []string{"seehuhn.de/go/pdf Copier, Reader, Writer, filters, crypto (working tree)"},
		Stub:     []string{"source disk image (revwriter or Writer on simdisk)", "target sink (simdisk, 5 kinds)", "crypto/rand.Reader"},
		Quick:    core.Budget{Runs: 60000, Secs: 150},
		Thorough: core.Budget{Runs: 3000000, Secs: 900},
		Run:      Run,
		Corners:  corners,
	})
}

type node struct {
	ref     pdf.Reference
	kind    string // dict, array, scalar, stream, chain
	value   pdf.Object
	body    []byte        // decoded stream data
	filter  string        // "", "Flate", "AHx"
	ind     [3]bool       // indirect /Filter, /DecodeParms, /Length
	globals pdf.Reference // JBIG2: /DecodeParms << /JBIG2Globals globals >>
	freed   bool
}

const (
	nodeBase = 1
	auxBase  = 40
	catNum   = 30
	pagesNum = 31
)

func drawGraph(t *tape.Tape, encrypted bool) []*node {
	n := 2 + t.Draw("g.n", 7)
	nodes := make([]*node, n)
	for i := range nodes {
		nodes[i] = &node{ref: pdf.NewReference(uint32(nodeBase+i), 0)}
	}
	refTo := func(l string) pdf.Object {
		switch t.Weighted(l+".refkind", 8, 1, 1) {
		case 0:
			return nodes[t.Draw(l+".target", n)].ref
		case 2:
			// a stale reference: right object number, wrong generation (null)
			return pdf.NewReference(nodes[t.Draw(l+".target", n)].ref.Number(), uint16(1+t.Draw(l+".stalegen", 2)))
		default:
			return pdf.NewReference(uint32(700+t.Draw(l+".dangling", 3)), 0) // never defined
		}
	}
	var value func(l string, depth int) pdf.Object
	value = func(l string, depth int) pdf.Object {
		switch t.Weighted(l+".vk", 5, 4, 2, 2, 2) {
		case 0:
			return refTo(l)
		case 1:
			return gen.Scalar(t, l+".s", &gen.Opts{MaxDepth: 0})
		case 2:
			if t.Bool(l+".emptyarr", 1, 2) {
				return pdf.Array{}
			}
			return pdf.Dict{}
		case 3:
			if depth >= 2 {
				return nil
			}
			k := t.Draw(l+".alen", 4)
			a := make(pdf.Array, k)
			for i := range a {
				a[i] = value(fmt.Sprintf("%s[%d]", l, i), depth+1)
			}
			return a
		default:
			if depth >= 2 {
				return pdf.Integer(1)
			}
			k := t.Draw(l+".dlen", 4)
			d := pdf.Dict{}
			for i := 0; i < k; i++ {
				d[pdf.Name(fmt.Sprintf("K%d", i))] = value(fmt.Sprintf("%s.K%d", l, i), depth+1)
			}
			return d
		}
	}
	for i, nd := range nodes {
		l := fmt.Sprintf("g.%d", i)
		switch t.Weighted(l+".kind", 5, 3, 1, 3, 2) {
		case 0:
			nd.kind = "dict"
			d := pdf.Dict{}
			for k := 0; k < 1+t.Draw(l+".n", 4); k++ {
				d[pdf.Name(fmt.Sprintf("E%d", k))] = value(fmt.Sprintf("%s.E%d", l, k), 0)
			}
			nd.value = d
		case 1:
			nd.kind = "array"
			a := make(pdf.Array, t.Draw(l+".n", 5))
			for k := range a {
				a[k] = value(fmt.Sprintf("%s[%d]", l, k), 0)
			}
			nd.value = a
		case 2:
			nd.kind = "scalar"
			nd.value = gen.Scalar(t, l+".s", &gen.Opts{MaxDepth: 0})
		case 3:
			nd.kind = "stream"
			d := pdf.Dict{}
			for k := 0; k < t.Draw(l+".n", 3); k++ {
				d[pdf.Name(fmt.Sprintf("S%d", k))] = value(fmt.Sprintf("%s.S%d", l, k), 1)
			}
			if t.Bool(l+".strings", 1, 2) {
				// strings in a stream dictionary (also nested): encrypted with
				// the stream's own key in the source and in the target
				d["Title"] = gen.String(t, l+".title", &gen.Opts{})
				if t.Bool(l+".nested", 1, 2) {
					d["Sub"] = pdf.Dict{"Note": gen.String(t, l+".note", &gen.Opts{}), "Arr": pdf.Array{gen.String(t, l+".arrstr", &gen.Opts{})}}
				}
			}
			nd.value = d
			nd.body = gen.Body(t, l+".body", 3000, false)
			nd.filter = tape.Pick(t, l+".filter", "", "Flate", "AHx", "JBIG2", "FlatePNG")
			if nd.filter == "FlatePNG" {
				nd.body = nd.body[:len(nd.body)/8*8]
			}
			if nd.filter == "JBIG2" {
				nd.globals = nodes[t.Draw(l+".globals", n)].ref
			}
			if !encrypted {
				nd.ind = [3]bool{t.Bool(l+".indF", 1, 3), t.Bool(l+".indP", 1, 3), t.Bool(l+".indL", 1, 3)}
			}
		default:
			nd.kind = "chain"
			nd.value = nodes[t.Draw(l+".to", n)].ref // a reference object pointing at another node (possibly a chain or itself)
		}
	}
	return nodes
}

func encodeBody(nd *node) (raw []byte, filter pdf.Object, parms pdf.Object) {
	switch nd.filter {
	case "Flate":
		var zb bytes.Buffer
		zw := zlib.NewWriter(&zb)
		zw.Write(nd.body)
		zw.Close()
		return zb.Bytes(), pdf.Name("FlateDecode"), pdf.Dict{"Predictor": pdf.Integer(1)}
	case "FlatePNG":
		// PNG "Up" predictor over rows of 8 bytes: without the parameters the
		// decoder returns different bytes, not an error
		var zb bytes.Buffer
		zw := zlib.NewWriter(&zb)
		prev := make([]byte, 8)
		for i := 0; i+8 <= len(nd.body); i += 8 {
			row := []byte{2}
			for k := 0; k < 8; k++ {
				row = append(row, nd.body[i+k]-prev[k])
			}
			zw.Write(row)
			prev = nd.body[i : i+8]
		}
		zw.Close()
		return zb.Bytes(), pdf.Name("FlateDecode"), pdf.Dict{"Predictor": pdf.Integer(12), "Columns": pdf.Integer(8)}
	case "AHx":
		return []byte(fmt.Sprintf("%x>", nd.body)), pdf.Array{pdf.Name("ASCIIHexDecode")}, nil
	case "JBIG2":
		// not a valid JBIG2 stream; what matters is the reference nested in
		// the parameter dictionary
		return nd.body, pdf.Name("JBIG2Decode"), pdf.Dict{"JBIG2Globals": nd.globals}
	}
	return nd.body, nil, nil
}

// Image draws a source graph and returns its image as written by the
// independent serialiser, with the references of its nodes: documents with
// indirect /Filter, /DecodeParms and /Length, reference chains, free objects
// and object streams, which the library's Writer never produces (base images
// for the fault enumeration of C19 and the corruption walker of C05).
func Image(t *tape.Tape) (img []byte, refs []pdf.Reference, ok bool) {
	nodes := drawGraph(t, false)
	img, ok = writeSourceRev(t, nodes)
	for _, nd := range nodes {
		refs = append(refs, nd.ref)
	}
	return img, refs, ok
}

// writeSourceRev serialises the graph with the independent serialiser.
func writeSourceRev(t *tape.Tape, nodes []*node) ([]byte, bool) {
	st := revwriter.NewStyle(t)
	f := revwriter.NewFile(nil, "1.7", st)
	rev := &revwriter.Revision{Kind: revwriter.SectionKind(t.Draw("src.kind", 3)), Compress: true, Predictor: 12, XRefObjNum: 60, ObjStmNum: 61}
	aux := uint32(auxBase)
	for _, nd := range nodes {
		d := revwriter.Def{Ref: nd.ref}
		if nd.kind == "stream" {
			raw, filter, parms := encodeBody(nd)
			dict := pdf.Dict{}
			for k, v := range nd.value.(pdf.Dict) {
				dict[k] = v
			}
			put := func(key pdf.Name, v pdf.Object, indirect bool) {
				if v == nil {
					return
				}
				if indirect {
					ref := pdf.NewReference(aux, 0)
					aux++
					rev.Defs = append(rev.Defs, revwriter.Def{Ref: ref, Value: v})
					dict[key] = ref
				} else {
					dict[key] = v
				}
			}
			put("Filter", filter, nd.ind[0])
			put("DecodeParms", parms, nd.ind[1])
			s := &revwriter.Stream{Dict: dict, Data: raw, Mode: revwriter.LenDirect}
			if nd.ind[2] {
				s.Mode = revwriter.LenIndirect
				s.LenRef = pdf.NewReference(aux, 0)
				rev.Defs = append(rev.Defs, revwriter.Def{Ref: s.LenRef, Value: pdf.Integer(len(raw))})
				aux++
			}
			d.Stream = s
		} else {
			d.Value = nd.value
			_, isRef := nd.value.(pdf.Reference)
			d.InObjStm = !isRef && t.Bool(fmt.Sprintf("src.objstm%d", nd.ref.Number()), 1, 3)
		}
		rev.Defs = append(rev.Defs, d)
	}
	rev.Defs = append(rev.Defs,
		revwriter.Def{Ref: pdf.NewReference(catNum, 0), Value: pdf.Dict{"Type": pdf.Name("Catalog"), "Pages": pdf.NewReference(pagesNum, 0)}},
		revwriter.Def{Ref: pdf.NewReference(pagesNum, 0), Value: pdf.Dict{"Type": pdf.Name("Pages"), "Kids": pdf.Array{}, "Count": pdf.Integer(0)}})
	rev.Trailer = pdf.Dict{"Root": pdf.NewReference(catNum, 0)}
	if !f.Append(rev, st) {
		return nil, false
	}
	// optionally a second revision that frees one node (references to it
	// then point at a free object)
	if t.Bool("src.rev2", 1, 3) {
		victim := nodes[t.Draw("src.victim", len(nodes))]
		victim.freed = true
		rev2 := &revwriter.Revision{Kind: revwriter.Table, Frees: []revwriter.Free{{Num: victim.ref.Number(), NextGen: 1}}, Trailer: pdf.Dict{"Root": pdf.NewReference(catNum, 0)}}
		if rev.Kind != revwriter.Table {
			rev2.Kind = revwriter.XRefStream
			rev2.XRefObjNum = 62
			rev2.Compress = true
		}
		if !f.Append(rev2, st) {
			return nil, false
		}
	}
	return f.Bytes(), true
}

// writeSourceLib serialises the graph with the library's Writer (encrypted).
func writeSourceLib(t *tape.Tape, nodes []*node, version pdf.Version, pw string) ([]byte, error) {
	disk := simdisk.NewDisk()
	var err error
	// Some streams opt out of encryption with an explicit /Crypt /Identity
	// filter (PDF >= 1.5).  Afterwards the name /Crypt in their /Filter array
	// may be replaced by a same-length indirect reference "9 0 R " to an
	// object holding that name: a form the Writer cannot emit itself.
	cryptIdentity := version >= pdf.V1_5 && t.Bool("src.cryptidentity", 1, 2)
	indirectCrypt := cryptIdentity && t.Bool("src.indirectcrypt", 1, 2)
	wprog.WithSeededRand(t.Sub("src.rand"), func() {
		var w *pdf.Writer
		w, err = pdf.NewWriter(disk.Sink(simdisk.Seekable), version, &pdf.WriterOptions{UserPassword: pw, UserPermissions: pdf.PermAll})
		if err != nil {
			return
		}
		for _, nd := range nodes {
			if nd.kind == "stream" {
				var filters []pdf.Filter
				sdict := nd.value.(pdf.Dict)
				switch nd.filter {
				case "JBIG2":
					sdict = pdf.Dict{}
					for k, v := range nd.value.(pdf.Dict) {
						sdict[k] = v
					}
					sdict["Filter"] = pdf.Name("JBIG2Decode")
					sdict["DecodeParms"] = pdf.Dict{"JBIG2Globals": nd.globals}
				case "Flate":
					filters = []pdf.Filter{pdf.FilterCompress{}}
				case "AHx":
					filters = []pdf.Filter{pdf.FilterASCIIHex{}}
				}
				if cryptIdentity && nd.filter != "JBIG2" && t.Bool(fmt.Sprintf("src.ci%d", nd.ref.Number()), 1, 2) {
					filters = append([]pdf.Filter{pdf.FilterCryptIdentity{}}, filters...)
				}
				var ws io.WriteCloser
				ws, err = w.OpenStream(nd.ref, sdict, filters...)
				if err != nil {
					return
				}
				ws.Write(nd.body)
				if err = ws.Close(); err != nil {
					return
				}
			} else if err = w.Put(nd.ref, nd.value); err != nil {
				return
			}
		}
		if indirectCrypt {
			if err = w.Put(pdf.NewReference(9, 0), pdf.Name("Crypt")); err != nil {
				return
			}
		}
		pages := pdf.NewReference(pagesNum, 0)
		w.Put(pages, pdf.Dict{"Type": pdf.Name("Pages"), "Kids": pdf.Array{}, "Count": pdf.Integer(0)})
		w.GetMeta().Catalog.Pages = pages
		err = w.Close()
	})
	if err == nil && indirectCrypt {
		// same length, so that no offset changes
		disk.Data = bytes.ReplaceAll(disk.Data, []byte("[/Crypt"), []byte("[9 0 R "))
	}
	return disk.Data, err
}

func Run(e *core.Env) {
	t := e.T
	srcPW := ""
	srcVersion := pdf.V1_7
	if t.Bool("src.encrypted", 1, 3) {
		srcPW = "srcpw"
		srcVersion = tape.Pick(t, "src.version", pdf.V1_7, pdf.V1_4, pdf.V2_0, pdf.V1_2)
	}
	nodes := drawGraph(t, srcPW != "")
	var srcImg []byte
	if srcPW != "" {
		var err error
		srcImg, err = writeSourceLib(t, nodes, srcVersion, srcPW)
		if err != nil {
			e.Skip("source rejected by Writer")
			e.Note("writer error", err.Error())
			return
		}
	} else {
		var ok bool
		srcImg, ok = writeSourceRev(t, nodes)
		if !ok {
			e.Skip("source not renderable")
			return
		}
	}
	sr, err := pdf.NewReader(simdisk.NewHandle(srcImg), int64(len(srcImg)), &pdf.ReaderOptions{Password: srcPW})
	if err != nil {
		e.Skip("source does not open")
		e.Note("open error", err.Error())
		return
	}

	// target
	restrict := wprog.Restrict{}
	cfg := wprog.DrawConfig(t, &restrict)
	disk := simdisk.NewDisk()
	var w *pdf.Writer
	var werr error
	rnd := t.Sub("dst.rand")
	var roots []pdf.Reference
	var dstRoots []pdf.Reference
	var prog []string
	redirected := map[pdf.Reference]pdf.Reference{}
	redirectVal := map[pdf.Reference]pdf.Object{}
	fail := func(class, format string, args ...any) {
		e.Fail(class, nil, format, args...)
	}
	wprog.WithSeededRand(rnd, func() {
		opt := &pdf.WriterOptions{HumanReadable: cfg.Human, UserPassword: cfg.UserPW, OwnerPassword: cfg.OwnerPW}
		if cfg.Encrypted() {
			opt.UserPermissions = pdf.PermAll
		}
		w, werr = pdf.NewWriter(disk.Sink(cfg.Sink), cfg.Version, opt)
		if werr != nil {
			return
		}
		c := pdf.NewCopier(w, sr)
		if t.Bool("prog.redirect", 1, 4) {
			// replace one source object by an object we write ourselves
			src := nodes[t.Draw("prog.redirect.src", len(nodes))].ref
			if t.Bool("prog.redirect.chain", 1, 2) {
				// prefer an inner member of a reference chain, if there is one
				for _, nd := range nodes {
					if nd.kind == "chain" {
						src = nd.ref
						break
					}
				}
			}
			nr := w.Alloc()
			val := pdf.Dict{"Redirected": pdf.Boolean(true)}
			if werr = w.Put(nr, val); werr != nil {
				return
			}
			c.Redirect(src, nr)
			redirected[src] = nr
			redirectVal[nr] = val
			prog = append(prog, fmt.Sprintf("redirect %d->%d", src.Number(), nr.Number()))
		}
		var open io.WriteCloser
		nOps := 1 + t.Draw("prog.n", 5)
		for i := 0; i < nOps && werr == nil; i++ {
			l := fmt.Sprintf("prog.%d", i)
			root := nodes[t.Draw(l+".root", len(nodes))].ref
			if open == nil && t.Bool(l+".openstream", 1, 5) {
				// copies issued while a target stream is open are deferred writes
				open, werr = w.OpenStream(w.Alloc(), pdf.Dict{"Open": pdf.Boolean(true)})
				if werr != nil {
					return
				}
				open.Write([]byte("stream kept open during copies"))
				prog = append(prog, "openstream")
			}
			switch t.Weighted(l+".kind", 5, 2, 2) {
			case 0:
				var nr pdf.Reference
				nr, werr = c.CopyReference(root)
				if werr != nil {
					return
				}
				roots = append(roots, root)
				dstRoots = append(dstRoots, nr)
				prog = append(prog, fmt.Sprintf("CopyReference %d->%d", root.Number(), nr.Number()))
				if t.Bool(l+".again", 1, 3) {
					nr2, err := c.CopyReference(root)
					if err != nil || nr2 != nr {
						fail("copy-twice", "CopyReference(%s) returned %s and then %s (err %v)", root, nr, nr2, err)
						return
					}
				}
			case 1:
				var res pdf.Native
				res, werr = c.Copy(root)
				if werr != nil {
					return
				}
				nr, ok := res.(pdf.Reference)
				if !ok {
					fail("copy-type", "Copy(Reference) returned %T", res)
					return
				}
				roots = append(roots, root)
				dstRoots = append(dstRoots, nr)
				prog = append(prog, fmt.Sprintf("Copy %d->%d", root.Number(), nr.Number()))
			case 2:
				nr := w.Alloc()
				werr = w.Put(nr, pdf.Array{pdf.Integer(i)})
				prog = append(prog, "put")
			}
			if open != nil && t.Bool(l+".closestream", 1, 2) {
				werr = open.Close()
				open = nil
				prog = append(prog, "closestream")
			}
		}
		if werr != nil {
			return
		}
		if open != nil {
			if werr = open.Close(); werr != nil {
				return
			}
		}
		pages := w.Alloc()
		w.Put(pages, pdf.Dict{"Type": pdf.Name("Pages"), "Kids": pdf.Array{}, "Count": pdf.Integer(0)})
		w.GetMeta().Catalog.Pages = pages
		werr = w.Close()
	})
	e.Note("source", fmt.Sprintf("%d nodes, encrypted=%v, %d bytes", len(nodes), srcPW != "", len(srcImg)))
	e.Note("graph", describe(nodes))
	e.Note("target", cfg.String())
	e.Note("program", prog)
	if e.Failed() {
		return
	}
	if werr != nil {
		// every program drawn here is valid: the source opens, references are
		// copied with the documented calls, target objects are written once
		e.Fail("copy-failed", map[string]string{"err": errShape(werr)}, "a valid copy program fails: %v (program %v)", werr, prog)
		return
	}
	e.Sig(describe(nodes), srcPW != "", cfg.String(), prog)
	if len(roots) > 0 && len(nodes) >= 3 {
		e.Nontrivial()
	}

	pw := cfg.UserPW
	if pw == "" {
		pw = cfg.OwnerPW
	}
	dr, err := pdf.NewReader(simdisk.NewHandle(disk.Data), int64(len(disk.Data)), &pdf.ReaderOptions{Password: pw})
	if err != nil {
		e.Fail("target-open", nil, "target does not open: %v", err)
		return
	}
	cmp := &comparer{e: e, sr: sr, dr: dr, s2d: map[pdf.Reference]pdf.Reference{}, d2s: map[pdf.Reference]pdf.Reference{}, redirected: redirected, redirectVal: redirectVal}
	for i, root := range roots {
		cmp.ref(root, dstRoots[i], fmt.Sprintf("root %s", root))
		if e.Failed() {
			return
		}
	}
	e.Steps(len(cmp.s2d))
	if len(cmp.s2d) >= 3 {
		e.Probe("graph of >= 3 objects compared")
	}
}

// errShape reduces an error message to its constant words (no numbers) so
// that it can serve as a class attribute.
func errShape(err error) string {
	msg := err.Error()
	var out []byte
	for i := 0; i < len(msg) && len(out) < 50; i++ {
		if c := msg[i]; c < '0' || c > '9' {
			out = append(out, c)
		}
	}
	return string(out)
}

func describe(nodes []*node) []string {
	var out []string
	for _, nd := range nodes {
		s := fmt.Sprintf("%d:%s", nd.ref.Number(), nd.kind)
		if nd.kind == "stream" {
			s += fmt.Sprintf("(%s ind=%v len=%d)", nd.filter, nd.ind, len(nd.body))
		} else {
			s += " " + gen.Show(nd.value)
		}
		if nd.freed {
			s += " FREED"
		}
		out = append(out, s)
	}
	return out
}

type comparer struct {
	e           *core.Env
	sr, dr      *pdf.Reader
	s2d, d2s    map[pdf.Reference]pdf.Reference
	redirected  map[pdf.Reference]pdf.Reference
	redirectVal map[pdf.Reference]pdf.Object
}

// finalRef follows reference-to-reference objects in the source and returns
// the reference of the object at the end of the chain (0 if the chain is
// cyclic or too long) together with that object.
func (c *comparer) finalRef(ref pdf.Reference) (pdf.Reference, pdf.Native, []pdf.Reference, bool) {
	seen := map[pdf.Reference]bool{}
	var chain []pdf.Reference
	for {
		if seen[ref] {
			return 0, nil, chain, false
		}
		seen[ref] = true
		chain = append(chain, ref)
		obj, err := c.sr.Get(ref, true)
		if err != nil {
			return 0, nil, chain, false
		}
		next, isRef := obj.(pdf.Reference)
		if !isRef {
			return ref, obj, chain, true
		}
		ref = next
	}
}

func (c *comparer) ref(src, dst pdf.Reference, path string) {
	if nr, ok := c.redirected[src]; ok {
		if dst != nr {
			c.e.Fail("redirect", nil, "%s: source %s was redirected to %s but the copy refers to %s", path, src, nr, dst)
		}
		return
	}
	final, sobj, chain, ok := c.finalRef(src)
	for _, r := range chain {
		if _, isRedirected := c.redirected[r]; isRedirected {
			// the chain leads through a redirected object: whether the copy
			// follows the redirection or the original chain is not specified
			c.e.Probe("chain through a redirected object")
			return
		}
	}
	if !ok {
		// a cyclic chain of pure references has no object at its end; the
		// Copier may report an error or copy null, nothing to compare
		c.e.Probe("cyclic reference chain")
		return
	}
	if d, ok := c.s2d[final]; ok {
		if d != dst {
			c.e.Fail("not-shared", nil, "%s: source object %s was copied more than once: target objects %s and %s", path, final, d, dst)
		}
		return
	}
	if s, ok := c.d2s[dst]; ok && s != final {
		c.e.Fail("merged", nil, "%s: target object %s stands for two different source objects %s and %s", path, dst, s, final)
		return
	}
	c.s2d[final] = dst
	c.d2s[dst] = final
	dobj, err := c.dr.Get(dst, true)
	if err != nil {
		c.e.Fail("target-get", nil, "%s: Get(%s) in the target: %v", path, dst, err)
		return
	}
	if _, isRef := dobj.(pdf.Reference); isRef {
		c.e.Fail("chain-not-shortened", nil, "%s: target object %s is itself a reference", path, dst)
		return
	}
	c.value(sobj, dobj, path)
}

func (c *comparer) value(s, d pdf.Object, path string) {
	if c.e.Failed() {
		return
	}
	switch sv := s.(type) {
	case pdf.Reference:
		dv, ok := d.(pdf.Reference)
		if !ok {
			c.e.Fail("value", nil, "%s: source has a reference %s, target has %s", path, sv, gen.Show(d))
			return
		}
		c.ref(sv, dv, path+"->"+fmt.Sprint(sv.Number()))
	case pdf.Array:
		dv, ok := d.(pdf.Array)
		if !ok || (sv == nil) != (dv == nil) {
			c.e.Fail("value", map[string]string{"kind": "array"}, "%s: source array %s, target %s", path, gen.Show(sv), gen.Show(d))
			return
		}
		if len(sv) != len(dv) {
			c.e.Fail("value", map[string]string{"kind": "array"}, "%s: array length %d copied as %d", path, len(sv), len(dv))
			return
		}
		for i := range sv {
			c.value(sv[i], dv[i], fmt.Sprintf("%s[%d]", path, i))
		}
	case pdf.Dict:
		dv, ok := d.(pdf.Dict)
		if !ok {
			c.e.Fail("value", map[string]string{"kind": "dict"}, "%s: source dict %s, target %s", path, gen.Show(sv), gen.Show(d))
			return
		}
		c.dict(sv, dv, path)
	case *pdf.Stream:
		dv, ok := d.(*pdf.Stream)
		if !ok {
			c.e.Fail("value", map[string]string{"kind": "stream"}, "%s: source stream, target %s", path, gen.Show(d))
			return
		}
		sd, dd := pdf.Dict{}, pdf.Dict{}
		for k, v := range sv.Dict {
			if k != "Length" && k != "Filter" && k != "DecodeParms" {
				sd[k] = v
			}
		}
		for k, v := range dv.Dict {
			if k != "Length" && k != "Filter" && k != "DecodeParms" {
				dd[k] = v
			}
		}
		c.dict(sd, dd, path)
		if c.e.Failed() {
			return
		}
		// /Filter and /DecodeParms describe how to read the (verbatim) data:
		// they must say the same thing in the target, with references nested
		// inside parameter dictionaries translated like any other reference.
		// Top-level and array-element references may have been inlined.
		for _, key := range []pdf.Name{"Filter", "DecodeParms"} {
			c.inlined(sv.Dict[key], dv.Dict[key], path+"/"+string(key), 0)
			if c.e.Failed() {
				return
			}
		}
		sdata, serr := readAll(c.sr, sv)
		ddata, derr := readAll(c.dr, dv)
		if serr != nil {
			c.e.Probe("source stream undecodable")
			return
		}
		if derr != nil || !bytes.Equal(sdata, ddata) {
			c.e.Fail("stream-data", nil, "%s: stream decodes to %d bytes in the source and %d bytes in the target (err %v)", path, len(sdata), len(ddata), derr)
		}
	default:
		if _, isRef := d.(pdf.Reference); isRef {
			c.e.Fail("value", nil, "%s: source has %s, target has a reference", path, gen.Show(s))
			return
		}
		if _, isStream := d.(*pdf.Stream); isStream {
			c.e.Fail("value", nil, "%s: source has %s, target has a stream", path, gen.Show(s))
			return
		}
		if diff := gen.Diff(s, d, ""); diff != "" {
			c.e.Fail("value", map[string]string{"kind": "scalar"}, "%s: %s", path, diff)
		}
	}
}

// inlined compares a /Filter or /DecodeParms value; source references at the
// top level and at array-element level are resolved first.
func (c *comparer) inlined(s, d pdf.Object, path string, level int) {
	if ref, isRef := s.(pdf.Reference); isRef {
		_, obj, _, ok := c.finalRef(ref)
		if !ok {
			return
		}
		s = obj
	}
	if ref, isRef := d.(pdf.Reference); isRef {
		obj, err := c.dr.Get(ref, true)
		if err != nil {
			c.e.Fail("target-get", nil, "%s: %v", path, err)
			return
		}
		d = obj
	}
	if _, isStream := s.(*pdf.Stream); isStream {
		return // a malformed filter entry; not the copier's business
	}
	sa, sIsArr := s.(pdf.Array)
	da, dIsArr := d.(pdf.Array)
	if sIsArr && level == 0 {
		if !dIsArr || len(sa) != len(da) {
			c.e.Fail("stream-filter", nil, "%s: source %s, target %s", path, gen.Show(s), gen.Show(d))
			return
		}
		for i := range sa {
			c.inlined(sa[i], da[i], fmt.Sprintf("%s[%d]", path, i), 1)
		}
		return
	}
	if s == nil && d == nil {
		return
	}
	if (s == nil) != (d == nil) {
		c.e.Fail("stream-filter", nil, "%s: source %s, target %s", path, gen.Show(s), gen.Show(d))
		return
	}
	c.value(s, d, path)
}

func sortedKeys(d pdf.Dict) []pdf.Name {
	ks := make([]pdf.Name, 0, len(d))
	for k := range d {
		ks = append(ks, k)
	}
	sort.Slice(ks, func(i, j int) bool { return ks[i] < ks[j] })
	return ks
}

func (c *comparer) dict(sv, dv pdf.Dict, path string) {
	for _, k := range sortedKeys(sv) {
		v := sv[k]
		if v == nil {
			continue
		}
		w, ok := dv[k]
		if !ok || w == nil {
			c.e.Fail("value", map[string]string{"kind": "dict-entry"}, "%s: dictionary entry /%s = %s is missing in the target", path, k, gen.Show(v))
			return
		}
		c.value(v, w, path+"/"+string(k))
		if c.e.Failed() {
			return
		}
	}
	for _, k := range sortedKeys(dv) {
		w := dv[k]
		if w == nil {
			continue
		}
		if v, ok := sv[k]; !ok || v == nil {
			c.e.Fail("value", map[string]string{"kind": "dict-entry"}, "%s: target has an extra dictionary entry /%s = %s", path, k, gen.Show(w))
			return
		}
	}
}

func readAll(r *pdf.Reader, s *pdf.Stream) ([]byte, error) {
	rc, err := pdf.DecodeStream(r, nil, s)
	if err != nil {
		return nil, err
	}
	defer rc.Close()
	return io.ReadAll(rc)
}

// Regressions: f1b9b1e (empty array copied as null), 448662b (panic on a
// dictionary entry with a null value), a98d4de (object copied twice when also
// reached through a reference chain), 7d0b661 (copying a stream while a target
// stream is open failed with 'object already written').
var corners = map[string]func(e *core.Env){
	"copier-regressions": func(e *core.Env) {
		st := revwriter.NewStyle(tape.Replay(nil))
		f := revwriter.NewFile(nil, "1.7", st)
		r := func(n uint32) pdf.Reference { return pdf.NewReference(n, 0) }
		rev := &revwriter.Revision{Kind: revwriter.Table, Trailer: pdf.Dict{"Root": r(catNum)}, Defs: []revwriter.Def{
			{Ref: r(1), Value: pdf.Dict{"D": pdf.Array{pdf.Array{}, pdf.Integer(0)}, "E": pdf.Array{}, "N": nil, "Self": r(1), "Via": r(2), "S": r(3), "Empty": pdf.Dict{}}},
			{Ref: r(2), Value: r(1)}, // a reference-to-reference object leading back to 1
			{Ref: r(3), Stream: &revwriter.Stream{Dict: pdf.Dict{"K": pdf.Integer(1)}, Data: []byte("stream data"), Mode: revwriter.LenDirect}},
			{Ref: r(catNum), Value: pdf.Dict{"Type": pdf.Name("Catalog"), "Pages": r(pagesNum)}},
			{Ref: r(pagesNum), Value: pdf.Dict{"Type": pdf.Name("Pages"), "Kids": pdf.Array{}, "Count": pdf.Integer(0)}},
		}}
		if !f.Append(rev, st) {
			e.Skip("not renderable")
			return
		}
		img := f.Bytes()
		sr, err := pdf.NewReader(simdisk.NewHandle(img), int64(len(img)), nil)
		if err != nil {
			e.Skip(err.Error())
			return
		}
		disk := simdisk.NewDisk()
		w, _ := pdf.NewWriter(disk.Sink(simdisk.AppendOnly), pdf.V1_7, nil)
		c := pdf.NewCopier(w, sr)
		open, _ := w.OpenStream(w.Alloc(), nil)
		open.Write([]byte("open while copying"))
		viaChain, err := c.CopyReference(r(2))
		if err != nil {
			e.Fail("copy-failed", map[string]string{"err": errShape(err)}, "CopyReference through a chain: %v", err)
			return
		}
		direct, err := c.CopyReference(r(1))
		if err != nil {
			e.Fail("copy-failed", map[string]string{"err": errShape(err)}, "CopyReference: %v", err)
			return
		}
		if err := open.Close(); err != nil {
			e.Fail("copy-failed", map[string]string{"err": errShape(err)}, "closing the target stream that was open during the copies: %v", err)
			return
		}
		pages := w.Alloc()
		w.Put(pages, pdf.Dict{"Type": pdf.Name("Pages"), "Kids": pdf.Array{}, "Count": pdf.Integer(0)})
		w.GetMeta().Catalog.Pages = pages
		if err := w.Close(); err != nil {
			e.Fail("copy-failed", map[string]string{"err": errShape(err)}, "Writer.Close: %v", err)
			return
		}
		dr, err := pdf.NewReader(simdisk.NewHandle(disk.Data), int64(len(disk.Data)), nil)
		if err != nil {
			e.Fail("target-open", nil, "%v", err)
			return
		}
		cmp := &comparer{e: e, sr: sr, dr: dr, s2d: map[pdf.Reference]pdf.Reference{}, d2s: map[pdf.Reference]pdf.Reference{}, redirected: map[pdf.Reference]pdf.Reference{}}
		cmp.ref(r(2), viaChain, "root via chain")
		cmp.ref(r(1), direct, "root direct")
	},
}
