// Package c04 checks property C04: the Reader follows the specification for
// every conforming serialisation and revision history.  Histories are written
// by the independent serialiser verif/sim/revwriter; the expected answer comes
// from a small reference model (apply revisions oldest to newest).
package c04

import (
	"bytes"
	"fmt"
	"io"

	"seehuhn.de/go/pdf"
	"verif/sim/core"
	"verif/sim/gen"
	"verif/sim/revwriter"
	"verif/sim/simdisk"
	"verif/sim/tape"
)

func init() {
	core.Register(&core.Prop{
		ID:    "C04",
		Level: "exploration",
		Rule: "one case = one revision history: 1..4 revisions over <= 6 object numbers (one history in 40: 40..160 numbers, nearly all redefined in every revision), each revision defines, redefines, frees (generation bump) or leaves each number and may re-use a freed number with the bumped generation; section kind table (1..n subsections, three 20-byte EOL forms), xref stream (any /W up to 8 bytes incl. W[0]=0 and W[2]=0 where allowed, /Index with several ranges, Flate with PNG predictor none/sub/up or uncompressed) or hybrid (/XRefStm lists object-stream members that are absent from the table); " +
			"objects optionally in object streams; 0..1000 bytes before the header; every token rendered with drawn white space, comments, EOLs, literal/hex strings, escapes, #-escaped names; streams with correct, indirect, missing, wrong or unresolvable /Length. " +
			"The image is opened with the real Reader after EVERY appended revision and compared with the model for every (number, generation) around the used ones. non-trivial = at least 2 revisions or a non-table section; distinct = hash of (per-object fate vector per revision, section kinds, length modes).",
		Assumptions: []string{
			"revwriter's output is spec-conforming by construction (free list maintained, one entry per number in the first revision, /Size, /Prev, self-describing xref streams); it shares no formatting code with the library",
			"hybrid files: objects listed in the /XRefStm are absent from that revision's table (the rendering on which every reading of 7.5.8.4 agrees); 'free in the table but present in the XRefStm' is not generated",
			"for the /Length clause, bodies with a missing/wrong/unresolvable length neither end in CR/LF nor contain EOL+endstream, and a wrong length never points (modulo white space) at an endstream keyword, as the quantifier says",
		},
		Real:     []string{"seehuhn.de/go/pdf NewReader, xref table/stream/hybrid reading, /Prev chain, object streams, scanner, ReadStreamData (working tree)"},
		Stub:     []string{"history serialiser (revwriter)", "io.ReaderAt personality"},
		Quick:    core.Budget{Runs: 100000, Secs: 150},
		Thorough: core.Budget{Runs: 5000000, Secs: 900},
		Run:      Run,
		Corners:  corners,
	})
}

type slot struct {
	defined bool // ever defined
	inUse   bool
	gen     uint16
	value   pdf.Object
	stream  *revwriter.Stream
	body    []byte
}

const (
	catNum   = 400
	pagesNum = 401
	infoNum  = 402
	auxBase  = 410 // xref streams, object streams, indirect lengths
)

// revHook is called after each appended revision; returning false stops.
type revHook func(img []byte, model map[uint32]*slot, nObj uint32, custom pdf.Dict, id pdf.Array, ri int, version string, last bool, sig []string) bool

// generate draws a revision history and serialises it revision by revision.
func generate(t *tape.Tape, hook revHook, skip func(string)) (img []byte, sigParts []string, junkLen int, nRev int, lastKind revwriter.SectionKind, ok bool) {
	style := revwriter.NewStyle(t)
	version := tape.Pick(t, "version", "1.7", "1.5", "2.0", "1.4", "1.6")
	oldVersion := version == "1.4"
	var junk []byte
	if t.Bool("junk", 1, 4) {
		junk = gen.Bytes(t, "junkbytes", 1000)
		junk = bytes.ReplaceAll(junk, []byte("%PDF-"), []byte("%PDX-"))
		if len(junk) > 0 && junk[len(junk)-1] == '%' {
			junk[len(junk)-1] = '.'
		}
	}
	f := revwriter.NewFile(junk, version, style)
	if t.Bool("reserve", 1, 3) {
		f.Reserve(tape.Pick(t, "reserve.n", 300, 700, 2500))
	}
	nObj := 1 + t.Draw("nobj", 6)
	nRev = 1 + t.Draw("nrev", 4)
	// now and then a history with many objects: cross-reference sections that
	// span several buffers of any reader, long runs of entries that a newer
	// revision shadows
	large := t.Bool("large", 1, 40)
	if large {
		nObj = 40 + t.Draw("nobj.large", 120)
		if nRev < 2 {
			nRev = 2
		}
	}
	model := map[uint32]*slot{}
	aux := uint32(auxBase)
	opts := &gen.Opts{MaxDepth: 2}
	for n := uint32(1); n <= uint32(nObj); n++ {
		opts.Refs = append(opts.Refs, pdf.NewReference(n, 0), pdf.NewReference(n, 1))
	}
	id := pdf.Array{pdf.String("0123456789abcdef"), pdf.String("fedcba9876543210")}
	lastKind = revwriter.Table

	for ri := 0; ri < nRev; ri++ {
		rl := fmt.Sprintf("r%d", ri)
		rev := &revwriter.Revision{}
		kinds := 3
		if oldVersion {
			kinds = 1
		}
		rev.Kind = revwriter.SectionKind(t.Draw(rl+".kind", kinds))
		lastKind = rev.Kind
		rev.SplitSubsections = t.Bool(rl+".split", 1, 3)
		rev.SplitAfterZero = t.Bool(rl+".splitzero", 1, 6)
		rev.EntryEOL = t.Draw(rl+".entryeol", 3)
		rev.W0Zero = t.Bool(rl+".w0zero", 1, 3)
		rev.W2Zero = t.Bool(rl+".w2zero", 1, 2)
		rev.ExtraW = [3]int{t.Draw(rl+".xw0", 2), tape.Pick(t, rl+".xw1", 0, 1, 3, 7), tape.Pick(t, rl+".xw2", 0, 1, 2, 6)}
		rev.Compress = t.Bool(rl+".compress", 2, 3)
		rev.Predictor = tape.Pick(t, rl+".pred", 12, 0, 10, 11)
		rev.FullIndex = t.Bool(rl+".fullindex", 1, 2)
		if rev.Kind != revwriter.Table {
			rev.XRefObjNum = aux
			aux++
			rev.ObjStmNum = aux
			aux++
		}
		fate := ""
		var pendingAux []revwriter.Def
		for n := uint32(1); n <= uint32(nObj); n++ {
			l := fmt.Sprintf("%s.o%d", rl, n)
			sl := model[n]
			if sl == nil {
				sl = &slot{}
				model[n] = sl
			}
			wDefine, wFree := 4, 0
			if sl.inUse {
				wFree = 2
			}
			if ri == 0 {
				wDefine = 8
			}
			if large {
				wDefine = 40 // nearly everything is (re)defined in every revision
			}
			switch t.Weighted(l+".act", 3, wDefine, wFree) {
			case 0:
				fate += "-"
			case 1: // define, redefine or re-use
				gn := sl.gen // in use: same generation; free: the bumped generation recorded in the free entry
				ref := pdf.NewReference(n, gn)
				d := revwriter.Def{Ref: ref}
				if !large && t.Bool(l+".stream", 1, 3) {
					st := &revwriter.Stream{Dict: stripKeys(gen.Dict(t, l+".sd", opts, 1))}
					st.Mode = revwriter.LengthMode(t.Weighted(l+".lenmode", 4, 2, 2, 2, 2))
					exact := st.Mode == revwriter.LenDirect || st.Mode == revwriter.LenIndirect
					st.Data = gen.Body(t, l+".body", 1500, false)
					if !exact {
						st.Data = unambiguous(st.Data)
					}
					switch st.Mode {
					case revwriter.LenIndirect:
						st.LenRef = pdf.NewReference(aux, 0)
						// the length may itself live in the revision's object stream
						pendingAux = append(pendingAux, revwriter.Def{Ref: st.LenRef, Value: pdf.Integer(len(st.Data)), InObjStm: t.Bool(l+".lenobjstm", 1, 2)})
						aux++
					case revwriter.LenWrong:
						st.WrongBy = tape.Pick(t, l+".wrongby", 1, -1, 2, 7, -5, 100, 1000, -100)
						if len(st.Data)+st.WrongBy < 0 {
							st.WrongBy = 1
						}
					case revwriter.LenUnresolvable:
						if t.Bool(l+".unres.name", 1, 2) {
							st.LenRef = pdf.NewReference(aux, 0)
							pendingAux = append(pendingAux, revwriter.Def{Ref: st.LenRef, Value: pdf.Name("NotANumber")})
							aux++
						} else {
							st.LenRef = pdf.NewReference(900+n, 0) // never defined
						}
					}
					d.Stream = st
					sl.stream, sl.value, sl.body = st, nil, st.Data
					fate += fmt.Sprintf("S%d", st.Mode)
				} else {
					v := gen.TopLevel(t, l+".val", opts)
					if large {
						v = pdf.Integer(int(n)*10 + ri) // cheap, and distinct per revision
					}
					d.Value = v
					d.InObjStm = gn == 0 && t.Bool(l+".objstm", 1, 2)
					if _, isRef := v.(pdf.Reference); isRef {
						d.InObjStm = false
					}
					sl.stream, sl.value = nil, gen.Clone(v)
					fate += "D"
					if d.InObjStm && rev.Kind != revwriter.Table {
						fate += "c"
					}
				}
				sl.defined, sl.inUse, sl.gen = true, true, gn
				rev.Defs = append(rev.Defs, d)
			case 2: // free
				if sl.gen >= 65534 {
					fate += "-"
					break
				}
				sl.inUse = false
				sl.gen++
				rev.Frees = append(rev.Frees, revwriter.Free{Num: n, NextGen: sl.gen})
				fate += "F"
			}
		}
		// auxiliary objects (indirect lengths) before or after their streams
		if t.Bool(rl+".auxfirst", 1, 2) {
			rev.Defs = append(pendingAux, rev.Defs...)
		} else {
			rev.Defs = append(rev.Defs, pendingAux...)
		}
		trailer := pdf.Dict{"Root": pdf.NewReference(catNum, 0), "ID": id}
		if ri == 0 || t.Bool(rl+".recat", 1, 5) {
			cat := pdf.Dict{"Type": pdf.Name("Catalog"), "Pages": pdf.NewReference(pagesNum, 0)}
			rev.Defs = append(rev.Defs, revwriter.Def{Ref: pdf.NewReference(catNum, 0), Value: cat})
		}
		if ri == 0 {
			rev.Defs = append(rev.Defs, revwriter.Def{Ref: pdf.NewReference(pagesNum, 0), Value: pdf.Dict{"Type": pdf.Name("Pages"), "Kids": pdf.Array{}, "Count": pdf.Integer(0)}})
		}
		custom := pdf.Dict{}
		if t.Bool(rl+".custom", 1, 2) {
			custom["ACME_Rev"] = pdf.Integer(ri)
			custom["XXthird"] = pdf.String(fmt.Sprintf("rev %d", ri))
			custom["zz:y"] = pdf.Name("v")
		}
		for k, v := range custom {
			trailer[k] = v
		}
		rev.Trailer = trailer
		sigParts = append(sigParts, fmt.Sprintf("%d:%s", rev.Kind, fate))
		if !f.Append(rev, style) {
			skip("history not renderable under the constraints")
			return nil, sigParts, len(junk), nRev, lastKind, false
		}
		img = f.Bytes()
		if t.Bool(rl+".front", 1, 2) {
			// newest section in front of everything else, /Prev pointing forward
			if fi, ok := f.FrontImage(); ok {
				img = fi
				sigParts = append(sigParts, "front")
			}
		}
		checkNow := ri == nRev-1 || t.Bool(rl+".checknow", 2, 3)
		if hook != nil && checkNow {
			if !hook(img, model, uint32(nObj), custom, id, ri, version, ri == nRev-1, sigParts) {
				return img, sigParts, len(junk), nRev, lastKind, false
			}
		}
	}
	return img, sigParts, len(junk), nRev, lastKind, true
}

// Image draws a history and returns the final image (base documents for the
// corruption walker of C05: /Prev chains, hybrid sections, bytes before the
// header).
func Image(t *tape.Tape) ([]byte, string, bool) {
	img, sig, junk, _, _, ok := generate(t, nil, func(string) {})
	return img, fmt.Sprintf("history %v junk=%d", sig, junk), ok
}

func Run(e *core.Env) {
	t := e.T
	hook := func(img []byte, model map[uint32]*slot, nObj uint32, custom pdf.Dict, id pdf.Array, ri int, version string, last bool, sig []string) bool {
		e.Steps(1)
		if !check(e, t, img, model, nObj, custom, id, ri, version) {
			e.Note("history", sig)
			e.Note("image", fmt.Sprintf("%q", truncate(img, 3000)))
			return false
		}
		return true
	}
	_, sigParts, junkLen, nRev, lastKind, ok := generate(t, hook, e.Skip)
	if !ok {
		return
	}
	e.Note("history", sigParts)
	e.Sig(sigParts, junkLen > 0)
	if nRev >= 2 || lastKind != revwriter.Table {
		e.Nontrivial()
	}
	e.Probe(fmt.Sprintf("revisions=%d", nRev))
	e.Probe([]string{"last section: table", "last section: xref stream", "last section: hybrid"}[lastKind])
}

func truncate(b []byte, n int) []byte {
	if len(b) > n {
		return b[len(b)-n:]
	}
	return b
}

func stripKeys(d pdf.Dict) pdf.Dict {
	for _, k := range []pdf.Name{"Length", "Filter", "DecodeParms", "F", "FFilter", "FDecodeParms", "Type"} {
		delete(d, k)
	}
	return d
}

// unambiguous rewrites a body so that its extent is recoverable without a
// usable /Length: it neither ends in CR/LF nor contains EOL+endstream.
func unambiguous(b []byte) []byte {
	out := append([]byte(nil), b...)
	if bytes.HasPrefix(out, []byte("endstream")) {
		out[0] = '_' // would follow the EOL of the stream keyword
	}
	out = bytes.ReplaceAll(out, []byte("\nendstream"), []byte("\n_ndstream"))
	out = bytes.ReplaceAll(out, []byte("\rendstream"), []byte("\r_ndstream"))
	if n := len(out); n > 0 && (out[n-1] == '\n' || out[n-1] == '\r') {
		out = append(out[:n-1:n-1], '.')
	}
	return out
}

func check(e *core.Env, t *tape.Tape, img []byte, model map[uint32]*slot, nObj uint32, custom pdf.Dict, id pdf.Array, ri int, version string) bool {
	h := simdisk.NewHandle(img)
	h.EOFAtEnd = t.Bool(fmt.Sprintf("r%d.eofAtEnd", ri), 1, 2)
	mode := pdf.ReaderErrorHandling(t.Draw(fmt.Sprintf("r%d.mode", ri), 3))
	r, err := pdf.NewReader(h, int64(len(img)), &pdf.ReaderOptions{ErrorHandling: mode})
	if err != nil {
		e.Fail("open-failed", map[string]string{"rev": revClass(ri)}, "after revision %d: NewReader rejects a conforming file: %v", ri, err)
		return false
	}
	if mode == pdf.ErrorHandlingReport && len(r.Errors) > 0 {
		e.Fail("open-reports-errors", nil, "after revision %d: NewReader reports errors for a conforming file: %v", ri, r.Errors[0])
		return false
	}
	meta := r.GetMeta()
	if vs, _ := meta.Version.ToString(); vs != version {
		e.Fail("version", nil, "header version %s read as %s", version, vs)
		return false
	}
	// trailer of the newest revision
	if meta.Trailer["Root"] != pdf.NewReference(catNum, 0) {
		e.Fail("trailer", nil, "after revision %d: trailer /Root is %v", ri, meta.Trailer["Root"])
		return false
	}
	for _, k := range []pdf.Name{"ACME_Rev", "XXthird", "zz:y"} {
		if d := gen.Diff(custom[k], meta.Trailer[k], "/"+string(k)); d != "" {
			e.Fail("trailer", nil, "after revision %d: trailer entry of the newest revision: %s", ri, d)
			return false
		}
	}
	if len(meta.ID) != 2 || !bytes.Equal(meta.ID[0], id[0].(pdf.String)) || !bytes.Equal(meta.ID[1], id[1].(pdf.String)) {
		e.Fail("trailer", nil, "after revision %d: ID read as %x", ri, meta.ID)
		return false
	}
	for n := uint32(0); n <= nObj+1; n++ {
		sl := model[n]
		gens := []uint16{0, 1}
		if sl != nil {
			gens = append(gens, sl.gen, sl.gen+1)
			if sl.gen > 0 {
				gens = append(gens, sl.gen-1)
			}
		}
		seen := map[uint16]bool{}
		for _, g := range gens {
			if seen[g] {
				continue
			}
			seen[g] = true
			ref := pdf.NewReference(n, g)
			if sl != nil && sl.inUse && sl.gen == g && sl.stream != nil && (sl.stream.Mode == revwriter.LenWrong || sl.stream.Mode == revwriter.LenUnresolvable) {
				// a wrong length (an unresolvable one counts as 0) that points,
				// modulo white space, at some endstream keyword in the image is
				// a different, equally valid reading; the quantifier excludes it
				declared := len(sl.stream.Data) + sl.stream.WrongBy
				if sl.stream.Mode == revwriter.LenUnresolvable {
					declared = 0
				}
				p := sl.stream.DataStart + declared
				for p >= 0 && p < len(img) && isWS(img[p]) {
					p++
				}
				if p < 0 || (p+9 <= len(img) && string(img[p:p+9]) == "endstream") {
					e.Probe("wrong length pointing at an endstream skipped")
					continue
				}
			}
			got, err := r.Get(ref, true)
			if err != nil {
				e.Fail("get-error", nil, "after revision %d: Get(%s): %v", ri, ref, err)
				return false
			}
			live := sl != nil && sl.inUse && sl.gen == g
			if !live {
				if got != nil {
					why := "absent"
					if sl != nil && sl.defined && !sl.inUse {
						why = "free"
					} else if sl != nil && sl.inUse {
						why = fmt.Sprintf("generation mismatch (current %d)", sl.gen)
					}
					e.Fail("not-null", map[string]string{"why": whyClass(why)}, "after revision %d: Get(%s) must be null (%s) but returns %s", ri, ref, why, gen.Show(got))
					return false
				}
				continue
			}
			if sl.stream == nil {
				if d := gen.Diff(sl.value, got, ""); d != "" {
					e.Fail("wrong-value", nil, "after revision %d: Get(%s): newest definition not returned: %s", ri, ref, d)
					return false
				}
				continue
			}
			stm, ok := got.(*pdf.Stream)
			if !ok {
				e.Fail("wrong-value", nil, "after revision %d: Get(%s): expected a stream, got %s", ri, ref, gen.Show(got))
				return false
			}
			gd := pdf.Dict{}
			for k, v := range stm.Dict {
				if k != "Length" {
					gd[k] = v
				}
			}
			if d := gen.Diff(sl.stream.Dict, gd, ""); d != "" {
				e.Fail("wrong-value", nil, "after revision %d: stream %s dictionary: %s", ri, ref, d)
				return false
			}
			data, err := io.ReadAll(stm.NewReader())
			if err != nil || !bytes.Equal(data, sl.body) {
				e.Fail("stream-extent", map[string]string{"length": fmt.Sprint(int(sl.stream.Mode))}, "after revision %d: stream %s (length mode %d): %d bytes in the file between stream and the EOL before endstream, reader yields %d (err %v)", ri, ref, sl.stream.Mode, len(sl.body), len(data), err)
				return false
			}
			e.Probe(fmt.Sprintf("stream read, length mode %d", sl.stream.Mode))
		}
	}
	return true
}

func isWS(c byte) bool {
	return c == 0 || c == 9 || c == 10 || c == 12 || c == 13 || c == 32
}

func revClass(ri int) string {
	if ri == 0 {
		return "first"
	}
	return "update"
}

func whyClass(w string) string {
	if len(w) > 10 {
		return w[:10]
	}
	return w
}

// Regression for 0fb6a46: a conforming table whose second subsection starts at
// object 1 with an unlinked free entry must not be shifted by one.
var corners = map[string]func(e *core.Env){
	"subsection-starting-at-1-after-object-0": func(e *core.Env) {
		st := revwriter.NewStyle(tape.Replay(nil))
		f := revwriter.NewFile(nil, "1.7", st)
		rev := &revwriter.Revision{Kind: revwriter.Table, SplitAfterZero: true,
			Defs: []revwriter.Def{
				{Ref: pdf.NewReference(2, 0), Value: pdf.Integer(7)},
				{Ref: pdf.NewReference(3, 0), Value: pdf.Name("three")},
				{Ref: pdf.NewReference(catNum, 0), Value: pdf.Dict{"Type": pdf.Name("Catalog"), "Pages": pdf.NewReference(pagesNum, 0)}},
				{Ref: pdf.NewReference(pagesNum, 0), Value: pdf.Dict{"Type": pdf.Name("Pages"), "Kids": pdf.Array{}, "Count": pdf.Integer(0)}},
			},
			Trailer: pdf.Dict{"Root": pdf.NewReference(catNum, 0)}}
		if !f.Append(rev, st) {
			e.Skip("not renderable")
			return
		}
		img := f.Bytes()
		r, err := pdf.NewReader(simdisk.NewHandle(img), int64(len(img)), nil)
		if err != nil {
			e.Fail("open-failed", map[string]string{"rev": "first"}, "NewReader rejects a conforming file: %v", err)
			return
		}
		for ref, want := range map[pdf.Reference]pdf.Object{pdf.NewReference(2, 0): pdf.Integer(7), pdf.NewReference(3, 0): pdf.Name("three"), pdf.NewReference(1, 0): nil} {
			got, err := r.Get(ref, true)
			if err != nil {
				e.Fail("get-error", nil, "Get(%s): %v", ref, err)
				return
			}
			if d := gen.Diff(want, got, ""); d != "" {
				e.Fail("wrong-value", nil, "Get(%s): %s", ref, d)
				return
			}
		}
	},
}
