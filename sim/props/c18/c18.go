//go:build simsched

// Package c18 checks property C18: concurrent reading equals sequential
// reading and shares decoded objects, for every interleaving at the cache
// protocol's synchronisation points.  Real library code runs in real
// goroutines inside a testing/synctest bubble; a cooperative scheduler driven
// by the tape decides who runs at every yield point.  The yield points inside
// the library come from build-time instrumentation (see cmd/instr).
package c18

import (
	"bytes"
	"errors"
	"fmt"
	"io"
	"sort"
	"strings"
	"time"

	"github.com/anishathalye/porcupine"
	"seehuhn.de/go/pdf"
	"seehuhn.de/go/pdf/font/cmap"
	"seehuhn.de/go/pdf/font/mapping"
	"seehuhn.de/go/pdf/graphics/extract"
	"seehuhn.de/go/postscript/cid"
	"verif/sim/core"
	"verif/sim/gen"
	"verif/sim/props/c18doc"
	"verif/sim/simdisk"
	"verif/sim/simsched"
	"verif/sim/tape"
)

func init() {
	core.Register(&core.Prop{
		ID:    "C18",
		Level: "exploration",
		Rule: "one case = one document (cyclic and shared references, reference-to-reference chains, Flate streams, object streams) x 2..4 tasks with 1..4 operations each from {Reader.Get, DecodeStream+drain, Decode with two Go types, nested Decode on mutually referential objects, DecodeExclusive, StoreOrLoadPair, cmap.Predefined, GetCIDTextMapping, independent write+read of another file} " +
			"x one schedule drawn by a seeded strategy (uniform random, PCT with 1..3 priority change points, run-until-blocked, round robin) over the yield points (every instrumented Lock/recv/close/pool operation, every ReadAt, every Getter.Get, inside every decode callback) x optional transient ReadAt fault x pool hand-out policy. " +
			"non-trivial = at least two tasks ran; distinct = hash of the interleaving signature (sequence of (task, yield site)) together with the operation list.",
		Assumptions: []string{
			"yield points are the instrumented synchronisation operations of packages pdf, font/cmap, font/mapping plus the seams the harness owns; code between two yield points runs atomically, so data races inside such a section are invisible to this check (the cooperative scheduler serialises everything)",
			"the linearizability model of the Extractor cache: per (extractor, reference, Go type) a slot; a Decode over the chain r1->r2->obj returns the first filled slot on the chain and publishes that value under the still empty references it followed, otherwise it fills every slot of the chain with the value its own callback produced; a filled slot never changes; StoreOrLoadPair fills its two slots atomically; failed calls change nothing",
			"DecodeExclusive is only used with callbacks that do not decode other objects, as its documentation requires",
		},
		Real:       []string{"seehuhn.de/go/pdf Reader, Extractor cache, Decode, DecodeExclusive, StoreOrLoadPair, DecodeStream, zlib pools; font/cmap and font/mapping caches (working tree, instrumented copies via overlay)", "goroutines and channels"},
		Stub:       []string{"task scheduler (who runs next)", "sync.Mutex acquisition order and sync.Pool policy in the instrumented packages", "io.ReaderAt (yield point, transient fault)", "Getter wrapper (yield point)"},
		Quick:      core.Budget{Runs: 16000, Secs: 150},
		Thorough:   core.Budget{Runs: 1200000, Secs: 900},
		Run:        Run,
		Corners:    corners,
		WantProbes: []string{"task parked on a channel", "cache race lost (returned value differs from own candidate)", "pool hit"},
	})
}

// ValA and ValB are the two Go types decoded values are cached under.
type ValA struct {
	Serial int
	Desc   string
}
type ValB struct {
	Serial int
	Desc   string
}

// history operations for the linearizability check
type opIn struct {
	kind  string // "decode" or "pair"
	x     int
	chain []pdf.Reference
	tp    string
	a, b  int // pair: provided serials
}
type opOut struct {
	err    bool
	v      int // returned serial
	ran    bool
	cand   int // serial produced by this call's own callback
	gets   int // references followed (Getter.Get calls) by this call itself
	va, vb int
}

type slotKey struct {
	x   int
	ref pdf.Reference
	tp  string
}

// cacheState is an immutable canonical encoding of the slot map.
type cacheState string

func (c cacheState) get(k slotKey) int {
	needle := fmt.Sprintf("|%d/%d/%s=", k.x, uint64(k.ref), k.tp)
	i := strings.Index(string(c), needle)
	if i < 0 {
		return 0
	}
	rest := string(c)[i+len(needle):]
	var v int
	fmt.Sscanf(rest, "%d", &v)
	return v
}

func (c cacheState) set(kv map[slotKey]int) cacheState {
	m := map[string]int{}
	for _, part := range strings.Split(string(c), "|") {
		if part == "" {
			continue
		}
		var v int
		eq := strings.LastIndex(part, "=")
		fmt.Sscanf(part[eq+1:], "%d", &v)
		m[part[:eq]] = v
	}
	for k, v := range kv {
		m[fmt.Sprintf("%d/%d/%s", k.x, uint64(k.ref), k.tp)] = v
	}
	keys := make([]string, 0, len(m))
	for k := range m {
		keys = append(keys, k)
	}
	sort.Strings(keys)
	var sb strings.Builder
	for _, k := range keys {
		fmt.Fprintf(&sb, "|%s=%d", k, m[k])
	}
	sb.WriteString("|")
	return cacheState(sb.String())
}

var cacheModel = porcupine.Model{
	Init: func() interface{} { return cacheState("|") },
	Step: func(state, input, output interface{}) (bool, interface{}) {
		st := state.(cacheState)
		in := input.(opIn)
		out := output.(opOut)
		if out.err {
			return true, st
		}
		switch in.kind {
		case "decode":
			for j, ref := range in.chain {
				if w := st.get(slotKey{in.x, ref, in.tp}); w != 0 {
					if out.v != w {
						return false, st
					}
					// The adopted value is published under the still empty
					// references the call had followed: all of the chain when
					// it got as far as running its callback (adoption at store
					// time), the first out.gets references when it stopped at
					// a cache hit after following that many.
					upto := len(in.chain)
					if !out.ran {
						upto = out.gets
						if j > upto || upto >= len(in.chain) {
							// the call cannot have seen this slot, or claims a
							// hit beyond the end of the chain
							return false, st
						}
					}
					fill := map[slotKey]int{}
					for k := 0; k < upto; k++ {
						if st.get(slotKey{in.x, in.chain[k], in.tp}) == 0 {
							fill[slotKey{in.x, in.chain[k], in.tp}] = w
						}
					}
					return true, st.set(fill)
				}
			}
			if !out.ran || out.v != out.cand {
				return false, st
			}
			fill := map[slotKey]int{}
			for _, r2 := range in.chain {
				fill[slotKey{in.x, r2, in.tp}] = out.v
			}
			return true, st.set(fill)
		case "pair":
			ref := in.chain[0]
			fill := map[slotKey]int{}
			wa := st.get(slotKey{in.x, ref, "A"})
			if wa == 0 {
				wa = in.a
				fill[slotKey{in.x, ref, "A"}] = wa
			}
			wb := st.get(slotKey{in.x, ref, "B"})
			if wb == 0 {
				wb = in.b
				fill[slotKey{in.x, ref, "B"}] = wb
			}
			if out.va != wa || out.vb != wb {
				return false, st
			}
			return true, st.set(fill)
		}
		return false, st
	},
	DescribeOperation: func(input, output interface{}) string {
		return fmt.Sprintf("%+v -> %+v", input, output)
	},
}

type yieldGetter struct {
	r   *pdf.Reader
	s   *simsched.Sched
	cnt map[int]*int // per task: Get counter of the cache operation in progress
}

func (g *yieldGetter) GetMeta() *pdf.MetaInfo { return g.r.GetMeta() }
func (g *yieldGetter) Get(ref pdf.Reference, canObjStm bool) (pdf.Native, error) {
	g.s.Yield("Getter.Get")
	if tk := g.s.Current(); tk != nil {
		if p := g.cnt[tk.ID]; p != nil {
			*p++
		}
	}
	return g.r.Get(ref, canObjStm)
}

type world struct {
	e        *core.Env
	s        *simsched.Sched
	d        *c18doc.Info
	r        *pdf.Reader
	yg       *yieldGetter
	xs       []*pdf.Extractor
	serial   int
	clock    int64
	ops      []porcupine.Operation
	returned map[slotKey]map[int]bool // serials returned per slot (identity oracle)
	exclRun  map[slotKey]int          // callback executions in flight per exclusive key
	exclOK   map[slotKey]int          // successful callback executions per exclusive key
	failNext map[int]bool             // per task: the next callback execution fails
	// failures of decode callbacks by the id of the error they returned: the
	// interval of the call whose callback produced it
	failIv map[int][2]int64
	// calls that returned somebody else's failure without running their own
	// callback: judged after the run, when every interval is known
	staleCand []staleCandidate
	notes     []string
}

type staleCandidate struct {
	id   int
	call int64
	ref  pdf.Reference
}

func (w *world) tick() int64 { w.clock++; return w.clock }
func (w *world) next() int   { w.serial++; return w.serial }

func (w *world) fail(class string, attrs map[string]string, format string, args ...any) {
	w.e.Fail(class, attrs, format, args...)
}

func isInjected(err error) bool { return errors.Is(err, simdisk.ErrInjected) }

func (w *world) note(tk int, format string, args ...any) {
	if w.e.KeepNotes() {
		w.notes = append(w.notes, fmt.Sprintf("t%d: ", tk)+fmt.Sprintf(format, args...))
	}
}

// decodeA is the decode callback for type *ValA; with nest it decodes the
// object's /Next first (mutually referential objects).
func (w *world) decodeA(x int, nest bool, ran *bool, cand *int) func(pdf.Cursor, pdf.Object, bool) (*ValA, error) {
	var fn func(c pdf.Cursor, obj pdf.Object, direct bool) (*ValA, error)
	fn = func(c pdf.Cursor, obj pdf.Object, direct bool) (*ValA, error) {
		w.s.Yield("callback enter")
		if w.failNext[w.s.Current().ID] {
			w.failNext[w.s.Current().ID] = false
			*ran = true
			w.s.Yield("callback exit")
			return nil, &callbackError{w.next()}
		}
		desc := gen.Show(obj)
		if dict, ok := obj.(pdf.Dict); ok && nest {
			// a nested decode of a mutually referential object is a cache
			// operation of its own and is recorded in the history
			if nref, isRef := dict["Next"].(pdf.Reference); isRef {
				var nran bool
				var ncand int
				in := opIn{kind: "decode", x: x, chain: w.d.Chains[nref], tp: "A"}
				call := w.tick()
				tid := w.s.Current().ID
				saved := w.yg.cnt[tid]
				ngets := 0
				w.yg.cnt[tid] = &ngets
				inner, err := pdf.Decode(c, nref, w.decodeA(x, false, &nran, &ncand))
				w.yg.cnt[tid] = saved
				ret := w.tick()
				out := opOut{err: err != nil, ran: nran, cand: ncand, gets: ngets}
				if err == nil && inner != nil {
					out.v = inner.Serial
					desc += " next=" + fmt.Sprint(inner.Serial)
					w.checkIdentity(slotKey{x, nref, "A"}, inner.Serial)
				}
				w.record(-1, in, out, call, ret)
				w.e.Probe("nested decode of a mutually referential object")
			}
		}
		w.s.Yield("callback exit")
		v := &ValA{Serial: w.next(), Desc: desc}
		*ran = true
		*cand = v.Serial
		return v, nil
	}
	return fn
}

// callbackError is what a deliberately failing decode callback returns.
type callbackError struct{ id int }

func (c *callbackError) Error() string { return fmt.Sprintf("decode callback failure #%d", c.id) }

func (w *world) decodeB(ran *bool, cand *int) func(pdf.Cursor, pdf.Object, bool) (*ValB, error) {
	return func(c pdf.Cursor, obj pdf.Object, direct bool) (*ValB, error) {
		w.s.Yield("callback enter")
		if w.failNext[w.s.Current().ID] {
			w.failNext[w.s.Current().ID] = false
			*ran = true
			w.s.Yield("callback exit")
			return nil, &callbackError{w.next()}
		}
		v := &ValB{Serial: w.next(), Desc: gen.Show(obj)}
		w.s.Yield("callback exit")
		*ran = true
		*cand = v.Serial
		return v, nil
	}
}

func (w *world) record(tk int, in opIn, out opOut, call, ret int64) {
	w.ops = append(w.ops, porcupine.Operation{ClientId: tk, Input: in, Call: call, Output: out, Return: ret})
}

func (w *world) checkIdentity(k slotKey, serial int) {
	if w.returned[k] == nil {
		w.returned[k] = map[int]bool{}
	}
	w.returned[k][serial] = true
	if len(w.returned[k]) > 1 {
		var ss []int
		for s := range w.returned[k] {
			ss = append(ss, s)
		}
		sort.Ints(ss)
		w.fail("identity", map[string]string{"oracle": "same-reference-same-type"}, "decodes of %s as type %s through extractor %d returned different Go values (serials %v)", k.ref, k.tp, k.x, ss)
	}
}

// opDecode performs Decode/DecodeExclusive of ref as ValA or ValB.
func (w *world) opDecode(tk int, x int, ref pdf.Reference, tp string, nest, exclusive, failCB bool) {
	w.failNext[tk] = failCB
	parkedBefore := w.s.ParkedOnChan(tk)
	in := opIn{kind: "decode", x: x, chain: w.d.Chains[ref], tp: tp}
	var ran bool
	var cand int
	call := w.tick()
	var serial int
	var err error
	gets := 0
	w.yg.cnt[tk] = &gets
	defer func() { w.yg.cnt[tk] = nil }()
	cur := pdf.CursorAt(w.xs[x], nil)
	key := slotKey{x, ref, tp}
	switch {
	case tp == "A" && !exclusive:
		var v *ValA
		v, err = pdf.Decode(cur, ref, w.decodeA(x, nest, &ran, &cand))
		if v != nil {
			serial = v.Serial
		}
	case tp == "B" && !exclusive:
		var v *ValB
		v, err = pdf.Decode(cur, ref, w.decodeB(&ran, &cand))
		if v != nil {
			serial = v.Serial
		}
	default:
		inner := w.decodeB(&ran, &cand)
		var v *ValB
		v, err = pdf.DecodeExclusive(cur, ref, func(c pdf.Cursor, o pdf.Object, direct bool) (*ValB, error) {
			w.exclRun[key]++
			if w.exclRun[key] > 1 {
				w.fail("exclusive-overlap", nil, "two executions of the decode function for %s overlap under DecodeExclusive", ref)
			}
			res, err := inner(c, o, direct)
			w.exclRun[key]--
			if err == nil {
				w.exclOK[key]++
				if w.exclOK[key] > 1 {
					w.fail("exclusive-ran-twice", nil, "the decode function for %s succeeded %d times under DecodeExclusive", ref, w.exclOK[key])
				}
			}
			return res, err
		})
		if v != nil {
			serial = v.Serial
		}
	}
	ret := w.tick()
	w.yg.cnt[tk] = nil
	out := opOut{err: err != nil, v: serial, ran: ran, cand: cand, gets: gets}
	w.note(tk, "decode%s(x%d, %s, %s, nest=%v) -> serial %d ran=%v err=%v", map[bool]string{true: "Exclusive", false: ""}[exclusive], x, ref, tp, nest, serial, ran, err)
	w.failNext[tk] = false
	waited := w.s.ParkedOnChan(tk) > parkedBefore
	if exclusive && waited {
		w.e.Probe("exclusive decode waited for a decode in flight")
		if ran {
			w.fail("exclusive-waiter-ran", nil, "DecodeExclusive(%s): the call waited for a decode in flight and then ran the decode function itself instead of sharing the outcome (result serial %d, err %v)", ref, serial, err)
		}
	}
	if err != nil {
		var cbe *callbackError
		if errors.As(err, &cbe) {
			w.e.Probe("decode callback failed")
			if ran {
				if w.failIv == nil {
					w.failIv = map[int][2]int64{}
				}
				w.failIv[cbe.id] = [2]int64{call, ret}
			} else {
				// somebody else's failure: legitimate only if that decode was
				// still in flight when this call began (judged after the run)
				w.staleCand = append(w.staleCand, staleCandidate{cbe.id, call, ref})
			}
		} else if !isInjected(err) {
			w.fail("unexpected-error", map[string]string{"op": "decode"}, "Decode(%s): %v", ref, err)
		}
		w.record(tk, in, out, call, ret)
		return
	}
	if serial == 0 {
		w.fail("nil-result", nil, "Decode(%s) returned nil without an error", ref)
		return
	}
	if ran && serial != cand {
		w.e.Probe("cache race lost (returned value differs from own candidate)")
	}
	w.record(tk, in, out, call, ret)
	w.checkIdentity(key, serial)
}

// Result types that are interfaces: the in-flight table of DecodeExclusive
// has to keep them apart just as the cache does.
type IfaceP interface{ P() int }
type IfaceQ interface{ Q() int }
type ValP struct{ Serial int }
type ValQ struct{ Serial int }

func (v *ValP) P() int { return v.Serial }
func (v *ValQ) Q() int { return v.Serial }

// opExclIface decodes ref exclusively as one of two interface types.
func (w *world) opExclIface(tk int, x int, ref pdf.Reference, which int) {
	cur := pdf.CursorAt(w.xs[x], nil)
	ran := false
	var serial int
	var err error
	wrong := ""
	if which == 0 {
		var v IfaceP
		v, err = pdf.DecodeExclusive(cur, ref, func(c pdf.Cursor, o pdf.Object, direct bool) (IfaceP, error) {
			w.s.Yield("callback enter")
			ran = true
			res := &ValP{Serial: w.next()}
			w.s.Yield("callback exit")
			return res, nil
		})
		if err == nil {
			if p, ok := v.(*ValP); ok {
				serial = p.Serial
			} else {
				wrong = fmt.Sprintf("%T", v)
			}
		}
	} else {
		var v IfaceQ
		v, err = pdf.DecodeExclusive(cur, ref, func(c pdf.Cursor, o pdf.Object, direct bool) (IfaceQ, error) {
			w.s.Yield("callback enter")
			ran = true
			res := &ValQ{Serial: w.next()}
			w.s.Yield("callback exit")
			return res, nil
		})
		if err == nil {
			if q, ok := v.(*ValQ); ok {
				serial = q.Serial
			} else {
				wrong = fmt.Sprintf("%T", v)
			}
		}
	}
	tp := []string{"IfaceP", "IfaceQ"}[which]
	w.note(tk, "exclusive(x%d, %s, %s) -> serial %d ran=%v err=%v", x, ref, tp, serial, ran, err)
	w.e.Probe("exclusive decode with an interface result type")
	if err != nil {
		if !isInjected(err) {
			w.fail("unexpected-error", map[string]string{"op": "exclusive-iface"}, "DecodeExclusive(%s) as %s: %v", ref, tp, err)
		}
		return
	}
	if wrong != "" {
		w.fail("identity", map[string]string{"oracle": "result-type"}, "DecodeExclusive(%s) as %s returned a %s: the outcome of a decode for another result type", ref, tp, wrong)
		return
	}
	w.checkIdentity(slotKey{x, ref, tp}, serial)
}

func (w *world) opPair(tk int, x int, ref pdf.Reference) {
	a := &ValA{Serial: w.next(), Desc: "pair"}
	b := &ValB{Serial: w.next(), Desc: "pair"}
	in := opIn{kind: "pair", x: x, chain: []pdf.Reference{ref}, a: a.Serial, b: b.Serial}
	call := w.tick()
	ra, rb := pdf.StoreOrLoadPair(w.xs[x], ref, a, b)
	ret := w.tick()
	w.note(tk, "pair(x%d, %s) -> %d,%d", x, ref, ra.Serial, rb.Serial)
	w.record(tk, in, opOut{va: ra.Serial, vb: rb.Serial}, call, ret)
	w.checkIdentity(slotKey{x, ref, "A"}, ra.Serial)
	w.checkIdentity(slotKey{x, ref, "B"}, rb.Serial)
}

func (w *world) opGet(tk int, ref pdf.Reference) {
	got, err := w.r.Get(ref, true)
	w.note(tk, "get(%s) err=%v", ref, err)
	if err != nil {
		if !isInjected(err) {
			w.fail("unexpected-error", map[string]string{"op": "get"}, "Get(%s): %v", ref, err)
		}
		return
	}
	want := w.d.Want[ref]
	if stm, ok := got.(*pdf.Stream); ok {
		d := pdf.Dict{}
		for k, v := range stm.Dict {
			if k != "Filter" && k != "DecodeParms" && k != "Length" {
				d[k] = v
			}
		}
		got = d
	}
	if d := gen.Diff(want, got, ""); d != "" {
		w.fail("sequential-equivalence", map[string]string{"op": "get"}, "concurrent Get(%s) differs from the sequential result: %s", ref, d)
	}
}

func (w *world) opStream(tk int, ref pdf.Reference) {
	got, err := w.r.Get(ref, true)
	if err != nil {
		if !isInjected(err) {
			w.fail("unexpected-error", map[string]string{"op": "stream"}, "Get(%s): %v", ref, err)
		}
		return
	}
	stm, ok := got.(*pdf.Stream)
	if !ok {
		w.fail("sequential-equivalence", map[string]string{"op": "stream"}, "Get(%s) is %T", ref, got)
		return
	}
	rc, err := pdf.DecodeStream(w.r, nil, stm)
	if err != nil {
		if !isInjected(err) {
			w.fail("unexpected-error", map[string]string{"op": "stream"}, "DecodeStream(%s): %v", ref, err)
		}
		return
	}
	var data []byte
	buf := make([]byte, 700)
	for {
		n, err := rc.Read(buf)
		data = append(data, buf[:n]...)
		if err == io.EOF {
			break
		}
		if err != nil {
			rc.Close()
			if !isInjected(err) {
				w.fail("unexpected-error", map[string]string{"op": "stream"}, "reading %s: %v", ref, err)
			}
			return
		}
		w.s.Yield("consumer between reads")
	}
	rc.Close()
	if len(data)%3 == 0 {
		// a deferred Close next to an explicit one: the second call must not
		// disturb streams that other tasks have open (the simulated pool
		// refuses an object that is put back twice)
		w.s.Yield("before second Close")
		rc.Close()
	}
	w.note(tk, "stream(%s) %d bytes", ref, len(data))
	if !bytes.Equal(data, w.d.Bodies[ref]) {
		w.fail("sequential-equivalence", map[string]string{"op": "stream"}, "concurrent DecodeStream(%s) yields %d bytes differing from the %d bytes written (first difference at %d)", ref, len(data), len(w.d.Bodies[ref]), firstDiff(data, w.d.Bodies[ref]))
	}
}

func firstDiff(a, b []byte) int {
	n := min(len(a), len(b))
	for i := 0; i < n; i++ {
		if a[i] != b[i] {
			return i
		}
	}
	return n
}

// opBadStream decodes a stream whose filter chain fails half-way through its
// construction; the stages already built must be released exactly once.
func (w *world) opBadStream(tk int, ref pdf.Reference) {
	obj, err := w.r.Get(ref, true)
	stm, ok := obj.(*pdf.Stream)
	if err != nil || !ok {
		if err != nil && !isInjected(err) {
			w.fail("unexpected-error", map[string]string{"op": "badstream"}, "Get(%s): %v", ref, err)
		}
		return
	}
	rc, err := pdf.DecodeStream(w.r, nil, stm)
	if err == nil {
		_, err = io.ReadAll(rc)
		rc.Close()
	}
	w.note(tk, "badstream(%s) err=%v", ref, err)
	if err == nil {
		w.fail("sequential-equivalence", map[string]string{"op": "badstream"}, "a stream deflated once but declared [/FlateDecode /FlateDecode] decodes without error")
	}
	w.e.Probe("failing filter chain decoded")
}

// opOtherFile writes and reads an independent file: it shares only
// package-level state (the zlib pools) with the other tasks.
func (w *world) opOtherFile(tk int, seed int) {
	if seed%4 == 3 {
		// an independent Reader on a file with objects nested too deeply: Get
		// fails, and it has to fail with the same error every time - errors are
		// values handed to one caller, not shared scratch space
		img, refs := c18doc.DeepFile(seed)
		h := simdisk.NewHandle(img)
		h.Hook = func(int64, int) { w.s.Yield("ReadAt(other file)") }
		r2, err := pdf.NewReader(h, int64(len(img)), nil)
		if err != nil {
			w.fail("interference", map[string]string{"op": "otherfile-deep"}, "independent hand-made file cannot be opened: %v", err)
			return
		}
		for _, ref := range refs {
			_, err1 := r2.Get(ref, true)
			if err1 == nil {
				w.note(tk, "otherfile(deep) accepted %s", ref)
				continue
			}
			msg1 := err1.Error() // rendered now: the value must not change later
			w.s.Yield("between failing Gets")
			_, err2 := r2.Get(ref, true)
			if err2 == nil {
				continue
			}
			w.e.Probe("independent reader on a too deeply nested object")
			if msg2 := err2.Error(); msg1 != msg2 || err1.Error() != msg1 {
				w.fail("interference", map[string]string{"op": "otherfile-deep"}, "two Gets of the same object through the same independent Reader fail with different errors, or the first error changed afterwards: %d, %d and now %d bytes of message", len(msg1), len(msg2), len(err1.Error()))
				return
			}
		}
		w.note(tk, "otherfile(deep)")
		return
	}
	if seed%2 == 1 {
		// an independent Reader on a file whose stream has no /Length: the
		// reader's recovery path (search for endstream, trim one end-of-line
		// marker) must not share state with the same path in another task
		img, ref, body := c18doc.NoLengthFile(seed)
		h := simdisk.NewHandle(img)
		h.Hook = func(int64, int) { w.s.Yield("ReadAt(other file)") }
		h.HookAfter = func(int64, int) { w.s.Yield("ReadAt(other file) returned") }
		r2, err := pdf.NewReader(h, int64(len(img)), nil)
		if err != nil {
			w.fail("interference", map[string]string{"op": "otherfile-nolength"}, "independent hand-made file cannot be opened: %v", err)
			return
		}
		var data []byte
		obj, err := r2.Get(ref, true)
		if stm, ok := obj.(*pdf.Stream); ok && err == nil {
			var rc io.ReadCloser
			if rc, err = pdf.DecodeStream(r2, nil, stm); err == nil {
				data, err = io.ReadAll(rc)
				rc.Close()
			}
		}
		w.note(tk, "otherfile(nolength) %d bytes err=%v", len(data), err)
		w.e.Probe("independent reader on a stream without /Length")
		if err != nil || !bytes.Equal(data, body) {
			w.fail("interference", map[string]string{"op": "otherfile-nolength"}, "independent reader in another task, stream without /Length: %d bytes in the file, %d read back (err %v)", len(body), len(data), err)
		}
		return
	}
	disk := simdisk.NewDisk()
	pw, err := pdf.NewWriter(disk.Sink(simdisk.Seekable), pdf.V1_7, nil)
	if err != nil {
		w.fail("unexpected-error", map[string]string{"op": "otherfile"}, "NewWriter: %v", err)
		return
	}
	ref := pw.Alloc()
	body := bytes.Repeat([]byte(fmt.Sprintf("other file %d ", seed)), 150+seed%40)
	ws, err := pw.OpenStream(ref, nil, pdf.FilterFlate{})
	if err != nil {
		w.fail("unexpected-error", map[string]string{"op": "otherfile"}, "OpenStream: %v", err)
		return
	}
	for i := 0; i < len(body); i += 500 {
		ws.Write(body[i:min(i+500, len(body))])
		w.s.Yield("producer between writes")
	}
	ws.Close()
	pages := pw.Alloc()
	pw.Put(pages, pdf.Dict{"Type": pdf.Name("Pages"), "Kids": pdf.Array{}, "Count": pdf.Integer(0)})
	pw.GetMeta().Catalog.Pages = pages
	if err := pw.Close(); err != nil {
		w.fail("unexpected-error", map[string]string{"op": "otherfile"}, "Close: %v", err)
		return
	}
	h := simdisk.NewHandle(disk.Data)
	h.Hook = func(int64, int) { w.s.Yield("ReadAt(other file)") }
	r2, err := pdf.NewReader(h, int64(len(disk.Data)), nil)
	if err != nil {
		w.fail("interference", map[string]string{"op": "otherfile"}, "an independent file written concurrently cannot be opened: %v", err)
		return
	}
	obj, _ := r2.Get(ref, true)
	stm, ok := obj.(*pdf.Stream)
	if !ok {
		w.fail("interference", map[string]string{"op": "otherfile"}, "independent file: stream missing")
		return
	}
	rc, err := pdf.DecodeStream(r2, nil, stm)
	if err != nil {
		w.fail("interference", map[string]string{"op": "otherfile"}, "independent file: %v", err)
		return
	}
	data, err := io.ReadAll(rc)
	rc.Close()
	w.note(tk, "otherfile %d bytes err=%v", len(data), err)
	if err != nil || !bytes.Equal(data, body) {
		w.fail("interference", map[string]string{"op": "otherfile"}, "independent writer/reader in another task: %d bytes written, %d read back (err %v)", len(body), len(data), err)
	}
}

var cmapNames = []string{"Identity-H", "UniJIS-UCS2-H", "90ms-RKSJ-H", "GBK-EUC-H", "no-such-cmap"}
var orderings = [][2]string{{"Adobe", "Japan1"}, {"Adobe", "GB1"}, {"Adobe", "Nope"}, {"Adobe", "Korea1"}, {"Adobe", "CNS1"}}

// The character collections of the predefined CMaps used here (Adobe
// Technical Note 5094 / ISO 32000 table of predefined CMaps): what a shared,
// package-level CMap object must keep saying whatever any Reader decoded.
var cmapCollection = map[string]string{"Identity-H": "Identity", "UniJIS-UCS2-H": "Japan1", "90ms-RKSJ-H": "Japan1", "GBK-EUC-H": "GB1"}

var cmapSupplement = map[string]int32{}

// fontGetter is a minimal in-memory file holding one composite font.
type fontGetter struct {
	meta pdf.MetaInfo
	objs map[pdf.Reference]pdf.Native
}

func (g *fontGetter) GetMeta() *pdf.MetaInfo { return &g.meta }
func (g *fontGetter) Get(ref pdf.Reference, _ bool) (pdf.Native, error) {
	return g.objs[ref], nil
}

// opFontRepair lets an independent reader decode a composite font whose
// CIDSystemInfo disagrees with the character collection of the predefined CMap
// it names.  Whatever the reader does to make sense of it must stay in its own
// decoded font: the predefined CMap is shared by the whole process.
func (w *world) opFontRepair(tk int, i int) {
	names := []string{"UniJIS-UCS2-H", "90ms-RKSJ-H", "GBK-EUC-H"}
	name := names[i%len(names)]
	ordering := []string{"Korea1", "Japan1", "GB1", "CNS1"}[(i/3)%4]
	sub := []pdf.Name{"CIDFontType0", "CIDFontType2"}[(i/12)%2]
	fontRef, cidRef, fdRef := pdf.NewReference(1, 0), pdf.NewReference(2, 0), pdf.NewReference(3, 0)
	g := &fontGetter{meta: pdf.MetaInfo{Version: pdf.V1_7}, objs: map[pdf.Reference]pdf.Native{
		fontRef: pdf.Dict{"Type": pdf.Name("Font"), "Subtype": pdf.Name("Type0"), "BaseFont": pdf.Name("Test-" + name), "Encoding": pdf.Name(name), "DescendantFonts": pdf.Array{cidRef}},
		cidRef: pdf.Dict{"Type": pdf.Name("Font"), "Subtype": sub, "BaseFont": pdf.Name("Test"),
			"CIDSystemInfo":  pdf.Dict{"Registry": pdf.String("Adobe"), "Ordering": pdf.String(ordering), "Supplement": pdf.Integer(0)},
			"FontDescriptor": fdRef},
		fdRef: pdf.Dict{"Type": pdf.Name("FontDescriptor"), "FontName": pdf.Name("Test"), "Flags": pdf.Integer(4),
			"FontBBox": pdf.Array{pdf.Integer(0), pdf.Integer(0), pdf.Integer(1000), pdf.Integer(1000)}, "ItalicAngle": pdf.Integer(0),
			"Ascent": pdf.Integer(800), "Descent": pdf.Integer(-200), "CapHeight": pdf.Integer(700), "StemV": pdf.Integer(80)},
	}}
	x := pdf.NewExtractor(g)
	w.s.Yield("before font decode")
	_, err := pdf.Decode(pdf.CursorAt(x, nil), fontRef, extract.Font)
	w.s.Yield("after font decode")
	w.note(tk, "fontrepair %s/%s/%s err=%v", name, ordering, sub, err)
	w.e.Probe("independent reader decoded a font with a mismatching character collection")
	w.checkPredefined(name)
}

func (w *world) checkPredefined(name string) {
	want, known := cmapCollection[name]
	f, err := cmap.Predefined(name)
	if !known || err != nil || f == nil {
		return
	}
	if f.ROS == nil || f.ROS.Registry != "Adobe" || f.ROS.Ordering != want {
		w.fail("package-state", map[string]string{"op": "cmap"}, "the shared predefined CMap %s now claims the character collection %v (Adobe-%s expected): package-level state was modified", name, f.ROS, want)
		// put the shared object right again, so that the runs and shrink
		// candidates that follow in this process are judged on their own
		f.ROS = &cid.SystemInfo{Registry: "Adobe", Ordering: want, Supplement: cmapSupplement[name]}
		return
	}
	cmapSupplement[name] = f.ROS.Supplement
}

func (w *world) opCMap(tk int, i int) {
	name := cmapNames[i%len(cmapNames)]
	f1, err1 := cmap.Predefined(name)
	w.s.Yield("between cmap lookups")
	f2, err2 := cmap.Predefined(name)
	w.note(tk, "cmap %s", name)
	if (err1 == nil) != (err2 == nil) || f1 != f2 {
		w.fail("package-cache", map[string]string{"op": "cmap"}, "cmap.Predefined(%q) returned different results: %p,%v and %p,%v", name, f1, err1, f2, err2)
	}
	w.checkPredefined(name)
	// two collections of one registry in every lookup, so that a verdict
	// depends on this run only and not on what the process loaded before
	w.checkMapping(orderings[(i+1)%len(orderings)])
	o := orderings[i%len(orderings)]
	w.checkMapping(o)
}

func (w *world) checkMapping(o [2]string) {
	m1, err1 := mapping.GetCIDTextMapping(o[0], o[1])
	m2, err2 := mapping.GetTextToCIDMapping(o[0], o[1])
	if (err1 == nil) != (err2 == nil) || (err1 == nil && (len(m1) == 0 || len(m2) == 0)) {
		w.fail("package-cache", map[string]string{"op": "mapping"}, "mapping %v: %d entries err %v / %d entries err %v", o, len(m1), err1, len(m2), err2)
	}
	if err1 == nil && err2 == nil {
		// the reverse table must be the inverse of the forward table of the
		// same collection, whatever other collections were asked for before
		bad, checked := 0, 0
		for text, c := range m2 {
			checked++
			if m1[c] != text {
				bad++
			}
			if checked >= 64 {
				break
			}
		}
		if bad > 0 {
			w.fail("package-cache", map[string]string{"op": "mapping-inverse"}, "mapping %v: %d of %d sampled entries of the text-to-CID table are not the inverse of the CID-to-text table of the same collection", o, bad, checked)
		}
	}
}

func Run(e *core.Env) {
	t := e.T
	d, err := c18doc.Build(t)
	if err != nil {
		e.Skip("document rejected: " + err.Error())
		return
	}
	nTasks := 2 + t.Draw("tasks", 3)
	type op struct {
		kind string
		x    int
		ref  pdf.Reference
		tp   string
		nest bool
		fail bool
		n    int
	}
	all := append(append([]pdf.Reference(nil), d.Dicts...), d.Chain...)
	plans := make([][]op, nTasks)
	hot := all[t.Draw("hot", len(all))] // most operations aim at the same few references
	// some runs are mostly about independent files in other tasks
	wOther := 1
	if t.Bool("otherheavy", 1, 8) {
		wOther = 12
	}
	var desc []string
	for i := range plans {
		n := 1 + t.Draw(fmt.Sprintf("t%d.nops", i), 4)
		for k := 0; k < n; k++ {
			l := fmt.Sprintf("t%d.op%d", i, k)
			var o op
			o.x = 0
			if t.Bool(l+".x1", 1, 6) {
				o.x = 1
			}
			pickRef := func() pdf.Reference {
				switch t.Weighted(l+".refsel", 5, 3, 2) {
				case 0:
					return hot
				case 1:
					return d.Chain[t.Draw(l+".chain", len(d.Chain))]
				}
				return all[t.Draw(l+".ref", len(all))]
			}
			switch t.Weighted(l+".kind", 6, 3, 3, 2, 2, 2, wOther, 1) {
			case 0:
				o.kind, o.ref, o.tp = "decode", pickRef(), "A"
				o.nest = t.Bool(l+".nest", 1, 3)
				o.fail = t.Bool(l+".fail", 1, 6)
			case 1:
				o.kind, o.ref, o.tp = "decode", pickRef(), "B"
				o.fail = t.Bool(l+".fail", 1, 6)
			case 2:
				o.kind, o.ref, o.tp = "exclusive", pickRef(), "B"
				o.fail = t.Bool(l+".fail", 1, 3)
				if t.Bool(l+".iface", 1, 3) {
					o.kind, o.n = "excliface", t.Draw(l+".which", 2)
				}
			case 3:
				o.kind, o.ref = "pair", pickRef()
			case 4:
				o.kind, o.ref = "get", append(all, d.Streams...)[t.Draw(l+".gref", len(all)+len(d.Streams))]
			case 5:
				o.kind, o.ref = "stream", d.Streams[t.Draw(l+".sref", len(d.Streams))]
			case 6:
				o.kind, o.n = "otherfile", t.Draw(l+".seed", 100)
				if d.BadStream != 0 && t.Bool(l+".bad", 1, 2) {
					o.kind, o.ref = "badstream", d.BadStream
				}
			default:
				o.kind, o.n = "cmap", t.Draw(l+".cm", 15)
				if t.Bool(l+".fontrepair", 1, 2) {
					o.kind, o.n = "fontrepair", t.Draw(l+".fr", 24)
				}
			}
			plans[i] = append(plans[i], o)
			desc = append(desc, fmt.Sprintf("t%d:%s(x%d,%d,%s,nest=%v,fail=%v)", i, o.kind, o.x, o.ref.Number(), o.tp, o.nest, o.fail))
		}
	}
	// "exclusive" and "decode B" share slots; a reference decoded with
	// DecodeExclusive is not also decoded with a nesting callback, as the
	// documentation of DecodeExclusive requires (type B callbacks never nest).
	faultAt := -1
	if t.Bool("fault", 1, 5) {
		faultAt = t.Draw("fault.at", 40)
	}
	e.Note("ops", desc)

	var sched *simsched.Sched
	leaked := e.InBubble(func() {
		sched = simsched.New(t)
		sched.KeepTrace = e.KeepNotes()
		w := &world{e: e, s: sched, d: d, returned: map[slotKey]map[int]bool{}, exclRun: map[slotKey]int{}, exclOK: map[slotKey]int{}, failNext: map[int]bool{}}
		h := simdisk.NewHandle(d.Image)
		r, err := pdf.NewReader(h, int64(len(d.Image)), &pdf.ReaderOptions{Password: d.Password})
		if err != nil {
			e.Skip("fault-free open failed: " + err.Error())
			return
		}
		w.r = r
		yg := &yieldGetter{r: r, s: sched, cnt: map[int]*int{}}
		w.yg = yg
		w.xs = []*pdf.Extractor{pdf.NewExtractor(yg), pdf.NewExtractor(yg)}
		base := h.Calls
		h.Hook = func(int64, int) { sched.Yield("ReadAt") }
		if t.Bool("yieldAfterRead", 1, 2) {
			// a caller may also be descheduled between receiving its bytes and
			// looking at them
			h.HookAfter = func(int64, int) { sched.Yield("ReadAt returned") }
		}
		if faultAt >= 0 {
			h.FailOnly = base + faultAt
		}
		install(sched)
		defer uninstall()
		for i := range plans {
			i := i
			sched.Go(fmt.Sprintf("t%d", i), func() {
				for _, o := range plans[i] {
					switch o.kind {
					case "decode":
						w.opDecode(i, o.x, o.ref, o.tp, o.nest, false, o.fail)
					case "exclusive":
						w.opDecode(i, o.x, o.ref, o.tp, false, true, o.fail)
					case "pair":
						w.opPair(i, o.x, o.ref)
					case "get":
						w.opGet(i, o.ref)
					case "stream":
						w.opStream(i, o.ref)
					case "otherfile":
						w.opOtherFile(i, o.n)
					case "badstream":
						w.opBadStream(i, o.ref)
					case "cmap":
						w.opCMap(i, o.n)
					case "fontrepair":
						w.opFontRepair(i, o.n)
					case "excliface":
						w.opExclIface(i, o.x, o.ref, o.n)
					}
				}
			})
		}
		sched.Run()
		uninstall()
		e.FaultN("transient ReadAt error", h.Fired)
		for _, tk := range sched.Tasks() {
			if tk.Panic != nil {
				class, attrs, msg := core.PanicViolation(tk.Panic, tk.Stack)
				e.Fail(class, attrs, "in task %s: %s", tk.Name, msg)
			}
		}
		if sched.Deadlock != "" {
			e.Fail("deadlock", nil, "no task can run: %s", sched.Deadlock)
		}
		for _, c := range w.staleCand {
			iv, known := w.failIv[c.id]
			if !known || iv[1] < c.call {
				e.Fail("stale-error", nil, "Decode(%s) returned the failure of an earlier decode (callback failure #%d) although that decode had finished before this call began: an old error served again", c.ref, c.id)
				break
			}
		}
		if sched.Stuck != "" {
			e.Fail("stuck", nil, "%s", sched.Stuck)
		}
		if sched.Overrun {
			e.Fail("livelock", nil, "step budget of %d scheduler steps exhausted", sched.MaxStep)
		}
		for _, pe := range sched.PoolErrors {
			e.Fail("pool-discipline", nil, "%s", pe)
		}
		for k, v := range sched.Probes {
			for i := 0; i < v; i++ {
				e.Probe(k)
			}
		}
		e.Steps(sched.Steps)
		if !e.Failed() && len(w.ops) > 0 {
			res := porcupine.CheckOperationsTimeout(cacheModel, w.ops, 20*time.Second)
			switch res {
			case porcupine.Illegal:
				var lines []string
				for _, o := range w.ops {
					lines = append(lines, fmt.Sprintf("[%d,%d] task %d %+v -> %+v", o.Call, o.Return, o.ClientId, o.Input, o.Output))
				}
				e.Fail("not-linearizable", map[string]string{"oracle": "cache-history"}, "the history of cache operations is not linearizable against the sequential cache model:\n%s", strings.Join(lines, "\n"))
			case porcupine.Unknown:
				e.Probe("linearizability check timed out (inconclusive)")
			}
		}
		e.Note("history", w.notes)
		if e.KeepNotes() {
			var tr []string
			for _, ev := range sched.Trace {
				tr = append(tr, fmt.Sprintf("t%d@%s", ev.Task, ev.Site))
			}
			e.Note("schedule", tr)
		}
	})
	if leaked {
		e.Fail("goroutine-leak", nil, "a goroutine is still blocked after all tasks finished")
	}
	if sched != nil {
		e.Sig(desc, sched.Signature(), faultAt)
		e.Note("strategy", fmt.Sprintf("%d steps=%d", sched.Strategy, sched.Steps))
		if len(plans) >= 2 {
			e.Nontrivial()
		}
	}
}

func install(s *simsched.Sched) {
	pdf.SimActive = &pdf.SimHooks{BeforeLock: s.Lock, AfterUnlock: s.Unlock, BeforeRecv: s.Recv, BeforeClose: s.BeforeClose, AfterClose: s.AfterClose, PoolGet: s.PoolGet, PoolPut: s.PoolPut}
	cmap.SimActive = &cmap.SimHooks{BeforeLock: s.Lock, AfterUnlock: s.Unlock, BeforeRecv: s.Recv, BeforeClose: s.BeforeClose, AfterClose: s.AfterClose}
	mapping.SimActive = &mapping.SimHooks{BeforeLock: s.Lock, AfterUnlock: s.Unlock, BeforeRecv: s.Recv, BeforeClose: s.BeforeClose, AfterClose: s.AfterClose}
}

func uninstall() {
	pdf.SimActive = nil
	cmap.SimActive = nil
	mapping.SimActive = nil
}

// Regressions for 70a0511.  The losing interleavings are forced without a
// scheduler: the "other goroutine" acts from inside the decode callback, i.e.
// exactly between the cache misses and the publication of the first decode.
var corners = map[string]func(e *core.Env){
	"chain-decode-must-not-replace-cached-value": func(e *core.Env) {
		d, err := c18doc.Build(tape.Replay(nil))
		if err != nil {
			e.Skip(err.Error())
			return
		}
		r, err := pdf.NewReader(simdisk.NewHandle(d.Image), int64(len(d.Image)), nil)
		if err != nil {
			e.Skip(err.Error())
			return
		}
		x := pdf.NewExtractor(r)
		c1, c2 := d.Chain[0], d.Chain[1]
		serial := 0
		plain := func(pdf.Cursor, pdf.Object, bool) (*ValA, error) { serial++; return &ValA{Serial: serial}, nil }
		var other *ValA
		first, err := pdf.Decode(pdf.CursorAt(x, nil), c1, func(c pdf.Cursor, o pdf.Object, direct bool) (*ValA, error) {
			// meanwhile another caller decodes the same object through c2
			other, _ = pdf.Decode(pdf.CursorAt(x, nil), c2, plain)
			return plain(c, o, direct)
		})
		if err != nil || other == nil {
			e.Skip("decode failed")
			return
		}
		again, _ := pdf.Decode(pdf.CursorAt(x, nil), c2, plain)
		if again != other {
			e.Fail("identity", map[string]string{"oracle": "same-reference-same-type"}, "Decode(%s) returned serial %d to one caller and serial %d to a later one: a decode entering the chain at %s replaced the cached value", c2, other.Serial, again.Serial, c1)
			return
		}
		if first != other {
			e.Fail("identity", map[string]string{"oracle": "same-reference-same-type"}, "decode through %s returned its own value %d although %d was already published for the object", c1, first.Serial, other.Serial)
		}
	},
	"cache-hit-publishes-under-followed-references": func(e *core.Env) {
		d, err := c18doc.Build(tape.Replay(nil))
		if err != nil {
			e.Skip(err.Error())
			return
		}
		r, err := pdf.NewReader(simdisk.NewHandle(d.Image), int64(len(d.Image)), nil)
		if err != nil {
			e.Skip(err.Error())
			return
		}
		x := pdf.NewExtractor(r)
		c1, c2 := d.Chain[0], d.Chain[1]
		serial := 0
		plain := func(pdf.Cursor, pdf.Object, bool) (*ValA, error) { serial++; return &ValA{Serial: serial}, nil }
		v2, _ := pdf.Decode(pdf.CursorAt(x, nil), c2, plain) // caches under c2 and the object
		v1, _ := pdf.Decode(pdf.CursorAt(x, nil), c1, plain) // follows c1, hits c2
		pa, _ := pdf.StoreOrLoadPair(x, c1, &ValA{Serial: 100}, &ValB{Serial: 101})
		v1b, _ := pdf.Decode(pdf.CursorAt(x, nil), c1, plain)
		if v1 != v2 || v1b != v1 || pa != v1 {
			e.Fail("identity", map[string]string{"oracle": "same-reference-same-type"}, "Decode(%s) returned serial %d, then StoreOrLoadPair(%s) published serial %d and Decode(%s) returned serial %d", c1, v1.Serial, c1, pa.Serial, c1, v1b.Serial)
		}
	},
}
