// Package c20 checks property C20: a truncated or xref-damaged file still gives
// up every object that was completely written.  Per generated document every
// truncation offset (crash point) and every xref damage variant is enumerated.
package c20

import (
	"bytes"
	"fmt"
	"io"
	"sort"
	"strings"

	"seehuhn.de/go/pdf"
	"verif/sim/core"
	"verif/sim/gen"
	"verif/sim/props/c03"
	"verif/sim/simdisk"
	"verif/sim/strictpdf"
	"verif/sim/wprog"
)

func init() {
	core.Register(&core.Prop{
		ID:    "C20",
		Level: "fault_enumeration",
		Rule: "one case = one generated document (write program as in C02 restricted as the quantifier says: unencrypted, no object streams, strings without EOL bytes, stream bodies in which no line starts with a digit (EOLs and line-initial endstream/endobj/xref/trailer/startxref/%%EOF are allowed); all sink kinds, versions, output modes; one document in five has long streams and is cut around object boundaries and on a coarse grid only); " +
			"for that document EVERY prefix length 0..len is enumerated as a crash point, plus 9 xref damage variants (xref section / startxref value / everything from the xref on, overwritten with spaces, 'X' or NUL). " +
			"True object extents come from the independent strict parser; complete objects are read through FileInfo.Read and, on a sample of the crash points and for all damage variants, through the Reader that MakeReader builds. Non-trivial = at least 3 objects and 100 crash points; distinct = hash of (configuration, operation kinds, image length). Crash points are reported under logical_steps.",
		Assumptions: []string{
			"object extents [start,end) are taken from strictpdf run on the intact image (independent of the library)",
			"a stream whose /Length cannot be resolved in the prefix (indirect length object cut off) is compared byte-wise only if its raw data does not end in CR/LF and does not contain EOL+endstream (otherwise the extent is inherently ambiguous); it must still be listed and not broken",
			"encrypted documents are excluded because FileInfo.Read does not decrypt",
		},
		Real:     []string{"seehuhn.de/go/pdf SequentialScan, FileInfo.Read, scanner, Writer (working tree)"},
		Stub:     []string{"disk image prefixes (crash at byte n)", "overwritten xref ranges", "io.ReaderAt personalities"},
		Quick:    core.Budget{Runs: 1600, Secs: 150},
		Thorough: core.Budget{Runs: 300000, Secs: 900},
		Run:      Run,
		Corners:  corners,
	})
}

var restrict = wprog.Restrict{NoEncrypt: true, NoObjStm: true, SafeText: true, MaxOps: 6, MaxBody: 1400, SmallValues: true, NoWriterGet: true}

// restrictLong: few operations, long stream bodies (several scanner windows);
// the crash points of such a document are enumerated around the object
// boundaries and on a coarse grid in between, not byte by byte.
var restrictLong = wprog.Restrict{NoEncrypt: true, NoObjStm: true, SafeText: true, MaxOps: 6, MaxBody: 4200, SmallValues: true, NoWriterGet: true, LongBodies: true}

func Run(e *core.Env) {
	r := &restrict
	if e.T.Bool("long", 1, 2) {
		r = &restrictLong
		sparse = true
		e.Probe("document with long streams (crash points around object boundaries)")
	} else {
		sparse = false
	}
	cfg := wprog.DrawConfig(e.T, r)
	disk := simdisk.NewDisk()
	res := wprog.Execute(e.T, cfg, r, disk.Sink(cfg.Sink))
	e.Note("config", cfg.String())
	e.Note("ops", res.OpNames)
	if res.Err != nil {
		e.Skip("writer rejected " + res.ErrOp)
		return
	}
	eofAtEnd := e.T.Bool("read.eofAtEnd", 1, 2)
	e.Sig(res.Shape(), len(disk.Data), eofAtEnd)
	Enumerate(e, res, disk.Data, eofAtEnd)
}

// sparse selects the coarse enumeration for the current run (worker processes
// run one case at a time).
var sparse bool

// viaReader counts checks, to sample the second pass through MakeReader.
var viaReader int

type extent struct {
	ref        strictpdf.Ref
	start, end int64
	obj        *strictpdf.Object
}

type versionGetter struct{ meta pdf.MetaInfo }

func (g *versionGetter) GetMeta() *pdf.MetaInfo                      { return &g.meta }
func (g *versionGetter) Get(pdf.Reference, bool) (pdf.Native, error) { return nil, nil }

// Enumerate checks all crash points and damage variants of one image.
func Enumerate(e *core.Env, res *wprog.Result, image []byte, eofAtEnd bool) {
	viaReader = 0
	f, err := strictpdf.Parse(image)
	if err != nil {
		e.Skip("intact image rejected by strictpdf (see C03)")
		e.Note("strictpdf", err.Error())
		return
	}
	var exts []extent
	for ref, o := range f.Objects {
		if o.InObjStm != 0 {
			e.Skip("object stream present")
			return
		}
		exts = append(exts, extent{ref, o.Start, o.End, o})
	}
	if f.XRefKind == "stream" {
		// the xref stream is an indirect object too; find its extent
		if l, ref, end := xrefStreamExtent(image, f); l {
			exts = append(exts, extent{ref: ref, start: f.XRefPos, end: end})
		}
	}
	sort.Slice(exts, func(i, j int) bool { return exts[i].start < exts[j].start })
	if len(exts) >= 3 && len(image) >= 100 {
		e.Nontrivial()
	}
	e.Note("image", fmt.Sprintf("%d bytes, %d objects, xref %s", len(image), len(exts), f.XRefKind))
	getter := &versionGetter{meta: pdf.MetaInfo{Version: res.Cfg.Version}}

	check := func(data []byte, what string, complete []extent) bool {
		e.Steps(1)
		if len(complete) == 0 {
			return true
		}
		h := simdisk.NewHandle(data)
		h.EOFAtEnd = eofAtEnd
		fi, err := pdf.SequentialScan(h, int64(len(data)))
		if err != nil {
			e.Fail("scan-failed", map[string]string{"err": errKind(err)}, "%s: %d complete objects present but SequentialScan fails: %v", what, len(complete), err)
			return false
		}
		dataInDoubt := map[int64]bool{}
		byStart := map[int64]*pdf.FileObject{}
		for _, s := range fi.Sections {
			for _, o := range s.Objects {
				byStart[o.ObjStart] = o
			}
		}
		for _, x := range complete {
			if x.obj != nil {
				if ss, isStream := x.obj.Value.(*strictpdf.Stream); isStream {
					if lref, indirect := ss.Dict["Length"].(strictpdf.Ref); indirect {
						lo := f.Objects[lref]
						if lo == nil || lo.End > int64(len(data)) || !bytes.Equal(data[lo.Start:lo.End], image[lo.Start:lo.End]) {
							// the length object is not available here, the extent has
							// to be recovered by scanning; that is inherently ambiguous
							// if the raw data ends in an EOL or contains EOL+endstream
							raw := ss.Raw
							if bytes.Contains(raw, []byte("\nendstream")) || bytes.Contains(raw, []byte("\rendstream")) {
								e.Probe("ambiguous extent skipped")
								continue
							}
							if n := len(raw); n > 0 && (raw[n-1] == '\n' || raw[n-1] == '\r') {
								// only the last byte is in doubt: the object must
								// still be listed and not broken, its data is not
								// compared
								e.Probe("ambiguous last byte: data not compared")
								dataInDoubt[x.start] = true
							} else {
								e.Probe("stream extent recovered without /Length")
							}
						}
					}
				}
			}
			fo := byStart[x.start]
			ref := pdf.NewReference(x.ref.Num, x.ref.Gen)
			if fo == nil || fo.Reference != ref {
				e.Fail("object-not-listed", nil, "%s: object %s at offset %d (complete, ends at %d) is not listed", what, ref, x.start, x.end)
				return false
			}
			if fo.Broken {
				e.Fail("object-broken", nil, "%s: object %s at offset %d (complete, ends at %d) is marked broken", what, ref, x.start, x.end)
				return false
			}
			exp := res.Written[ref]
			if exp == nil || dataInDoubt[x.start] {
				continue // catalog, info, length objects, xref stream: listing is all we know
			}
			got, err := fi.Read(fo)
			if err != nil {
				e.Fail("read-failed", nil, "%s: FileInfo.Read(%s): %v", what, ref, err)
				return false
			}
			if !exp.IsStream {
				if d := gen.Diff(exp.Obj, got, ""); d != "" {
					e.Fail("value-mismatch", nil, "%s: object %s: %s", what, ref, d)
					return false
				}
				continue
			}
			stm, ok := got.(*pdf.Stream)
			if !ok {
				e.Fail("value-mismatch", nil, "%s: object %s: expected stream, got %s", what, ref, gen.Show(got))
				return false
			}
			if d := wprog.DictDiff(exp.Dict, stm.Dict); d != "" {
				e.Fail("value-mismatch", nil, "%s: stream %s dictionary: %s", what, ref, d)
				return false
			}
			rc, err := pdf.DecodeStream(getter, nil, stm)
			if err != nil {
				e.Fail("stream-mismatch", nil, "%s: stream %s: DecodeStream: %v", what, ref, err)
				return false
			}
			body, err := io.ReadAll(rc)
			rc.Close()
			if err != nil || !bytes.Equal(body, exp.Body) {
				e.Fail("stream-mismatch", nil, "%s: stream %s [%v]: %d bytes written, %d read (err %v)", what, ref, exp.Filters, len(exp.Body), len(body), err)
				return false
			}
		}
		// The same objects through the Reader that MakeReader builds from the
		// scan (on a sample of the crash points: it costs a second pass).  The
		// statement does not promise that MakeReader succeeds on a damaged
		// file; if it does, a listed, unbroken object must read as written.
		viaReader++
		if viaReader%23 != 0 && !strings.HasPrefix(what, "xref damage") {
			return true
		}
		r, err := fi.MakeReader(&pdf.ReaderOptions{ErrorHandling: pdf.ErrorHandlingRecover})
		if err != nil {
			e.Probe("MakeReader declined")
			return true
		}
		e.Probe("objects read through the recovered Reader")
		for _, x := range complete {
			ref := pdf.NewReference(x.ref.Num, x.ref.Gen)
			exp := res.Written[ref]
			if exp == nil || exp.IsStream {
				continue
			}
			got, err := r.Get(ref, true)
			if err != nil {
				e.Fail("read-failed", map[string]string{"via": "MakeReader"}, "%s: recovered Reader.Get(%s): %v", what, ref, err)
				return false
			}
			if d := gen.Diff(exp.Obj, got, ""); d != "" {
				e.Fail("value-mismatch", map[string]string{"via": "MakeReader"}, "%s: object %s through the recovered Reader: %s", what, ref, d)
				return false
			}
		}
		return true
	}

	// every crash point (long documents: every offset within 100 bytes after
	// and 4 bytes before an object's end, every 61st offset otherwise)
	near := func(n int) bool {
		for _, x := range exts {
			if int64(n) >= x.end-4 && int64(n) <= x.end+100 {
				return true
			}
		}
		return false
	}
	for n := 0; n <= len(image); n++ {
		if sparse && len(image) > 3000 && n%61 != 0 && n != len(image) && !near(n) {
			continue
		}
		k := sort.Search(len(exts), func(i int) bool { return exts[i].end > int64(n) })
		// exts sorted by start; ends are increasing as well (objects do not overlap)
		if !check(image[:n], fmt.Sprintf("truncated at %d of %d", n, len(image)), exts[:k]) {
			return
		}
		e.FaultN("crash point", 1)
	}
	// xref damage
	fills := []byte{' ', 'X', 0}
	for _, fill := range fills {
		for variant := 0; variant < 3; variant++ {
			d := append([]byte(nil), image...)
			var a, b int64
			switch variant {
			case 0: // the cross-reference section (table+trailer, or the xref stream object)
				a, b = f.XRefPos, f.XRefEnd
			case 1: // the startxref value
				a, b = f.StartXRef+9, int64(len(image))-6
			case 2: // everything from the xref section on
				a, b = f.XRefPos, int64(len(image))
			}
			for i := a; i < b && i < int64(len(d)); i++ {
				d[i] = fill
			}
			var complete []extent
			for _, x := range exts {
				if x.end <= a || x.start >= b {
					complete = append(complete, x)
				}
			}
			if !check(d, fmt.Sprintf("xref damage variant %d fill %q [%d,%d)", variant, fill, a, b), complete) {
				return
			}
			e.FaultN("xref damage", 1)
		}
	}
}

func xrefStreamExtent(image []byte, f *strictpdf.File) (bool, strictpdf.Ref, int64) {
	return f.XRefObj != strictpdf.Ref{}, f.XRefObj, f.XRefEnd
}

func errKind(err error) string {
	if err == io.EOF {
		return "bare io.EOF"
	}
	if err == io.ErrUnexpectedEOF {
		return "bare io.ErrUnexpectedEOF"
	}
	if pdf.IsMalformed(err) {
		return "malformed"
	}
	return "other"
}

var _ = c03.ToPDF

// Regression for c5040f8 (a cut shortly after an "N G obj" header made the
// scan return a bare io.EOF) and for the interplay with indirect /Length
// objects that are cut off: every crash point of a fixed document.
var corners = map[string]func(e *core.Env){
	"fixed-doc-every-crash-point": func(e *core.Env) {
		for _, v := range []pdf.Version{pdf.V1_4, pdf.V1_7} {
			for _, sink := range []simdisk.SinkKind{simdisk.AppendOnly, simdisk.Seekable} {
				disk := simdisk.NewDisk()
				w, err := pdf.NewWriter(disk.Sink(sink), v, nil)
				if err != nil {
					e.Skip(err.Error())
					return
				}
				res := &wprog.Result{Cfg: wprog.Config{Version: v, Sink: sink}, Written: map[pdf.Reference]*wprog.Expect{}}
				put := func(obj pdf.Object) {
					ref := w.Alloc()
					w.Put(ref, obj)
					res.Written[ref] = &wprog.Expect{Obj: gen.Clone(obj), How: "put"}
				}
				put(pdf.Dict{"A": pdf.Integer(1), "B": pdf.Array{pdf.Name("x"), pdf.String("(str)")}})
				sref := w.Alloc()
				body := bytes.Repeat([]byte("0123456789abcdef"), 80)
				w.Put(sref, pdf.NewStream(pdf.Dict{"K": pdf.Integer(7)}, body))
				res.Written[sref] = &wprog.Expect{IsStream: true, Dict: pdf.Dict{"K": pdf.Integer(7)}, Body: body, How: "putstream"}
				put(pdf.Integer(42))
				put(pdf.Array{pdf.Real(1.5), nil, pdf.Boolean(true)})
				pages := w.Alloc()
				pd := pdf.Dict{"Type": pdf.Name("Pages"), "Kids": pdf.Array{}, "Count": pdf.Integer(0)}
				w.Put(pages, pd)
				res.Written[pages] = &wprog.Expect{Obj: pd, How: "pages"}
				w.GetMeta().Catalog.Pages = pages
				if err := w.Close(); err != nil {
					e.Skip(err.Error())
					return
				}
				for _, eof := range []bool{false, true} {
					Enumerate(e, res, disk.Data, eof)
					if e.Failed() {
						return
					}
				}
			}
		}
	},
}
