// Package c18doc builds the documents used by the concurrency checks: cyclic
// and shared references, reference-to-reference chains, compressed streams,
// object streams, optional encryption.
package c18doc

import (
	"bytes"
	"compress/zlib"
	"fmt"
	"image"
	"image/jpeg"
	"strings"

	"seehuhn.de/go/pdf"
	"verif/sim/simdisk"
	"verif/sim/tape"
	"verif/sim/wprog"
)

type Info struct {
	Password string
	Image    []byte
	Dicts    []pdf.Reference // mutually referential dictionaries
	Chain    []pdf.Reference // chain[0] -> chain[1] -> dicts[0]
	Streams  []pdf.Reference
	Bodies   map[pdf.Reference][]byte
	Want     map[pdf.Reference]pdf.Object // expected Get results (Streams: dict)
	Chains   map[pdf.Reference][]pdf.Reference
	// BadStream is a stream whose second filter cannot be set up (the data
	// is deflated once but declared /Filter [/FlateDecode /FlateDecode]):
	// DecodeStream fails after it has built the first stage.
	BadStream pdf.Reference
	// FlateDCT is a JPEG stored behind FlateDecode: /Filter [/FlateDecode
	// /DCTDecode].  The JPEG decoder's helper goroutine reads through the
	// zlib stage; closing the decoded stream early must stop the helper
	// before the zlib reader goes back to the package-level pool.
	FlateDCT pdf.Reference
}

func Build(t *tape.Tape) (*Info, error) {
	d := &Info{Bodies: map[pdf.Reference][]byte{}, Want: map[pdf.Reference]pdf.Object{}, Chains: map[pdf.Reference][]pdf.Reference{}}
	disk := simdisk.NewDisk()
	version := tape.Pick(t, "doc.version", pdf.V1_7, pdf.V1_4, pdf.V2_0, pdf.V1_1, pdf.V1_6)
	opt := &pdf.WriterOptions{HumanReadable: t.Bool("doc.human", 1, 4)}
	if t.Bool("doc.encrypt", 1, 3) {
		// every cipher the Writer selects: RC4-40 (1.1), RC4-128 (1.4), AES-128 (1.6, 1.7), AES-256 (2.0)
		d.Password = "secret"
		opt.UserPassword = d.Password
		opt.UserPermissions = pdf.PermAll
	}
	var w *pdf.Writer
	var err error
	wprog.WithSeededRand(t.Sub("doc.rand"), func() {
		w, err = pdf.NewWriter(disk.Sink(simdisk.AppendOnly), version, opt)
	})
	if err != nil {
		return nil, err
	}
	n := 2 + t.Draw("doc.ndicts", 3)
	for i := 0; i < n; i++ {
		d.Dicts = append(d.Dicts, w.Alloc())
	}
	c1, c2 := w.Alloc(), w.Alloc()
	d.Chain = []pdf.Reference{c1, c2}
	var compRefs []pdf.Reference
	var compObjs []pdf.Object
	for i, ref := range d.Dicts {
		obj := pdf.Dict{"Val": pdf.Integer(i), "Next": d.Dicts[(i+1)%n], "Name": pdf.String(fmt.Sprintf("dict %d", i))}
		d.Want[ref] = obj
		if i > 0 && t.Bool(fmt.Sprintf("doc.comp%d", i), 1, 3) {
			compRefs = append(compRefs, ref)
			compObjs = append(compObjs, obj)
		} else if err := w.Put(ref, obj); err != nil {
			return nil, err
		}
	}
	if len(compRefs) > 0 {
		if err := w.WriteCompressed(compRefs, compObjs...); err != nil {
			return nil, err
		}
	}
	if err := w.Put(c1, c2); err != nil {
		return nil, err
	}
	if err := w.Put(c2, d.Dicts[0]); err != nil {
		return nil, err
	}
	d.Want[c1] = c2
	d.Want[c2] = d.Dicts[0]
	ns := 1 + t.Draw("doc.nstreams", 3)
	st := t.Sub("doc.bodies")
	for i := 0; i < ns; i++ {
		ref := w.Alloc()
		body := make([]byte, 200+st.Intn(3000))
		for k := range body {
			body[k] = byte('a' + (k*7+i*13+st.Intn(2))%23)
		}
		filters := []pdf.Filter{pdf.FilterCompress{}}
		if i == 1 {
			filters = []pdf.Filter{pdf.FilterASCIIHex{}, pdf.FilterCompress{}}
		}
		ws, err := w.OpenStream(ref, pdf.Dict{"Idx": pdf.Integer(i)}, filters...)
		if err != nil {
			return nil, err
		}
		ws.Write(body)
		if err := ws.Close(); err != nil {
			return nil, err
		}
		d.Streams = append(d.Streams, ref)
		d.Bodies[ref] = body
		d.Want[ref] = pdf.Dict{"Idx": pdf.Integer(i)}
	}
	if version >= pdf.V1_2 {
		var zb bytes.Buffer
		zw := zlib.NewWriter(&zb)
		zw.Write(bytes.Repeat([]byte("deflated only once "), 40))
		zw.Close()
		d.BadStream = w.Alloc()
		if err := w.Put(d.BadStream, pdf.NewStream(pdf.Dict{"Filter": pdf.Array{pdf.Name("FlateDecode"), pdf.Name("FlateDecode")}}, zb.Bytes())); err != nil {
			return nil, err
		}
	}
	if version >= pdf.V1_2 {
		img := image.NewGray(image.Rect(0, 0, 240, 240))
		st := t.Sub("flatedct.pix")
		for i := range img.Pix {
			img.Pix[i] = byte(st.Intn(256))
		}
		var jb, zb bytes.Buffer
		jpeg.Encode(&jb, img, &jpeg.Options{Quality: 90})
		zw := zlib.NewWriter(&zb)
		zw.Write(jb.Bytes())
		zw.Close()
		d.FlateDCT = w.Alloc()
		if err := w.Put(d.FlateDCT, pdf.NewStream(pdf.Dict{"Filter": pdf.Array{pdf.Name("FlateDecode"), pdf.Name("DCTDecode")}}, zb.Bytes())); err != nil {
			return nil, err
		}
	}
	pages := w.Alloc()
	w.Put(pages, pdf.Dict{"Type": pdf.Name("Pages"), "Kids": pdf.Array{}, "Count": pdf.Integer(0)})
	w.GetMeta().Catalog.Pages = pages
	if err := w.Close(); err != nil {
		return nil, err
	}
	d.Image = disk.Data
	for _, ref := range d.Dicts {
		d.Chains[ref] = []pdf.Reference{ref}
	}
	d.Chains[c2] = []pdf.Reference{c2, d.Dicts[0]}
	d.Chains[c1] = []pdf.Reference{c1, c2, d.Dicts[0]}
	return d, nil
}

// NoLengthFile assembles by hand a small file whose only stream has no
// /Length entry, so that a reader has to find the end of the data by looking
// for the endstream keyword and has to decide which end-of-line marker in
// front of it belongs to the syntax.  The marker (LF, CR LF or CR) and the body
// depend on the seed; the body never ends in an end-of-line byte.
func NoLengthFile(seed int) (img []byte, ref pdf.Reference, body []byte) {
	eol := []string{"\n", "\r\n", "\r"}[seed%3]
	body = bytes.Repeat([]byte(fmt.Sprintf("no length %d;", seed)), 20+seed%50)
	var b bytes.Buffer
	var offs [4]int
	b.WriteString("%PDF-1.7\n%\xe2\xe3\xcf\xd3\n")
	offs[1] = b.Len()
	b.WriteString("1 0 obj\n<< /Type /Catalog /Pages 2 0 R >>\nendobj\n")
	offs[2] = b.Len()
	b.WriteString("2 0 obj\n<< /Type /Pages /Kids [] /Count 0 >>\nendobj\n")
	offs[3] = b.Len()
	b.WriteString("3 0 obj\n<< /Kind /NoLength >>\nstream\n")
	b.Write(body)
	b.WriteString(eol + "endstream\nendobj\n")
	xref := b.Len()
	fmt.Fprintf(&b, "xref\n0 4\n0000000000 65535 f \n%010d 00000 n \n%010d 00000 n \n%010d 00000 n \n", offs[1], offs[2], offs[3])
	fmt.Fprintf(&b, "trailer\n<< /Size 4 /Root 1 0 R >>\nstartxref\n%d\n%%%%EOF\n", xref)
	return b.Bytes(), pdf.NewReference(3, 0), body
}

// DeepFile assembles by hand a small file whose object 3 is an array nested
// deeper than any reader accepts (and object 4 a dictionary nested likewise),
// so that Get has to fail - with the same error every time, for every Reader.
func DeepFile(seed int) (img []byte, refs []pdf.Reference) {
	depth := 300 + seed%50
	var b bytes.Buffer
	var offs [5]int
	b.WriteString("%PDF-1.7\n%\xe2\xe3\xcf\xd3\n")
	offs[1] = b.Len()
	b.WriteString("1 0 obj\n<< /Type /Catalog /Pages 2 0 R >>\nendobj\n")
	offs[2] = b.Len()
	b.WriteString("2 0 obj\n<< /Type /Pages /Kids [] /Count 0 >>\nendobj\n")
	offs[3] = b.Len()
	b.WriteString("3 0 obj\n" + strings.Repeat("[", depth) + strings.Repeat("]", depth) + "\nendobj\n")
	offs[4] = b.Len()
	b.WriteString("4 0 obj\n" + strings.Repeat("<</K ", depth) + "0" + strings.Repeat(">>", depth) + "\nendobj\n")
	xref := b.Len()
	fmt.Fprintf(&b, "xref\n0 5\n0000000000 65535 f \n%010d 00000 n \n%010d 00000 n \n%010d 00000 n \n%010d 00000 n \n", offs[1], offs[2], offs[3], offs[4])
	fmt.Fprintf(&b, "trailer\n<< /Size 5 /Root 1 0 R >>\nstartxref\n%d\n%%%%EOF\n", xref)
	return b.Bytes(), []pdf.Reference{pdf.NewReference(3, 0), pdf.NewReference(4, 0)}
}
