// Package c06 checks property C06: decode(encode(x)) = x for every encodable
// filter, accepted parameter set, version and admissible input, however the
// writes and reads are chunked, with the decoder rebuilt from the emitted
// name and parameter dictionary.
package c06

import (
	"bytes"
	"fmt"
	"io"
	"runtime"

	"seehuhn.de/go/membudget"
	"seehuhn.de/go/pdf"
	"verif/sim/core"
	"verif/sim/fgen"
	"verif/sim/gen"
	"verif/sim/simdisk"
	"verif/sim/simio"
	"verif/sim/tape"
)

func init() {
	core.Register(&core.Prop{
		ID:    "C06",
		Level: "exploration",
		Rule: "one case = (filter kind, accepted parameter set, version, input of admissible shape) x a write schedule (chunk sizes incl. 1,2,3,row-1,row,row+1,511..4097, all) x a read schedule (short reads, (0,nil), data-with-EOF, consumer buffer sizes 1..64K); " +
			"70% direct mode: Filter.Encode -> Info -> MakeFilter -> Decode; 30% chain mode: 1..3 filters through Writer.OpenStream on a simulated sink and back through DecodeStream. " +
			"non-trivial = non-empty input; distinct = hash of (filter description, version, input length, write schedule, read schedule).",
		Assumptions: []string{
			"input shape: whole rows where a predictor or CCITTFax is used, CCITT padding bits zero; /Rows for CCITT is either omitted or the true row count",
			"parameter sets rejected by Info(version) are not cases",
		},
		Real:     []string{"seehuhn.de/go/pdf filters and internal codecs (working tree)", "compress/zlib", "Writer.OpenStream / DecodeStream in chain mode"},
		Stub:     []string{"encoder sink and decoder source (simio delivery schedules)", "simulated disk in chain mode"},
		Quick:    core.Budget{Runs: 800000, Secs: 150},
		Thorough: core.Budget{Runs: 6000000, Secs: 900},
		Run:      Run,
		Corners:  corners,
	})
}

type sink struct {
	buf    bytes.Buffer
	writes int
	closed int
}

func (s *sink) Write(p []byte) (int, error) { s.writes++; return s.buf.Write(p) }
func (s *sink) Close() error                { s.closed++; return nil }

func Run(e *core.Env) {
	t := e.T
	if t.Bool("chainmode", 3, 10) {
		chainMode(e)
		return
	}
	c, ok := fgen.Draw(t, "f", true)
	if !ok {
		e.Skip("parameters rejected by validation")
		return
	}
	data := fgen.Data(t, "data", &c, 20000)
	if c.Kind == "CCITT" {
		f := c.Filter.(pdf.FilterCCITTFax)
		if t.Bool("ccitt.rows", 1, 2) {
			f.Rows = len(data) / c.RowBytes
			c.Class["Rows"] = "given"
			if f.Rows == 0 {
				c.Class["Rows"] = "omitted"
			}
		} else {
			c.Class["Rows"] = "omitted"
		}
		c.Filter = f
		c.Desc += fmt.Sprintf(" Rows=%d", f.Rows)
	}
	wsched := simio.NewSchedule(t, "wsched", c.RowBytes)
	rsched := simio.NewSchedule(t, "rsched", c.RowBytes)
	dsched := simio.NewSchedule(t, "dsched", 0)
	eofWithData := t.Bool("eofWithData", 1, 2)
	zeroReads := t.Bool("zeroReads", 1, 3)
	e.Note("case", fmt.Sprintf("%s v%s len=%d", c.Desc, c.Version, len(data)))
	e.Note("schedules", map[string]any{"write": wsched.Describe(), "source": rsched.Describe(), "drain": dsched.Describe(), "eofWithData": eofWithData, "zeroReads": zeroReads})
	e.Sig(c.Desc, c.Version, len(data), wsched.Describe(), rsched.Describe(), dsched.Describe(), eofWithData, zeroReads)
	if len(data) > 0 {
		e.Nontrivial()
	}
	attrs := map[string]string{"filter": c.Kind, "mode": "direct"}
	for k, v := range c.Class {
		attrs[k] = v
	}
	RoundTrip(e, &c, data, wsched, rsched, dsched, eofWithData, zeroReads, attrs)
}

// RoundTrip performs the direct-mode check.
func RoundTrip(e *core.Env, c *fgen.Case, data []byte, wsched, rsched, dsched *simio.Schedule, eofWithData, zeroReads bool, attrs map[string]string) {
	orig := append([]byte(nil), data...)
	s := &sink{}
	enc, err := c.Filter.Encode(c.Version, s)
	if err != nil {
		e.Fail("encode-error", attrs, "%s: Encode: %v", c.Desc, err)
		return
	}
	if err := simio.WriteChunked(enc, data, wsched); err != nil {
		e.Fail("encode-error", attrs, "%s: Write: %v", c.Desc, err)
		return
	}
	if err := enc.Close(); err != nil {
		e.Fail("encode-error", attrs, "%s: Close: %v", c.Desc, err)
		return
	}
	if !bytes.Equal(orig, data) {
		e.Fail("input-modified", attrs, "%s: the encoder modified the caller's buffer", c.Desc)
		return
	}
	if s.closed != 1 {
		e.Fail("sink-close", attrs, "%s: the sink was closed %d times", c.Desc, s.closed)
		return
	}
	if e.T.Bool("encoder.doubleclose", 1, 8) {
		// a deferred Close next to an explicit one; whatever the second call
		// returns, encoders opened afterwards must be unaffected (the Flate
		// compressors come from a package-level pool)
		enc.Close()
		e.Probe("encoder closed twice")
		if err := core.FlateEncodeCanary(); err != nil {
			e.Fail("pool-corrupted", map[string]string{"mode": "encoder"}, "%s: after the encoder was closed twice, Flate encoders that are open at the same time interfere: %v", c.Desc, err)
			return
		}
	}
	encoded := s.buf.Bytes()
	e.Steps(s.writes)

	name, dict, err := c.Filter.Info(c.Version)
	if err != nil {
		e.Skip("Info rejected after Encode accepted")
		return
	}
	f2, err := pdf.MakeFilter(name, dict)
	if err != nil {
		e.Fail("makefilter", attrs, "%s: MakeFilter(%s, %s): %v", c.Desc, name, gen.Show(dict), err)
		return
	}
	name2, dict2, err := f2.Info(c.Version)
	if err != nil || name2 != name || gen.Diff(effective(dict), effective(dict2), "") != "" {
		e.Fail("params-not-reproduced", attrs, "%s: Info gives (%s, %s), MakeFilter+Info gives (%s, %s), %v", c.Desc, name, gen.Show(dict), name2, gen.Show(dict2), err)
		return
	}

	if want, got := effectiveFilter(c.Filter, c.Version), effectiveFilter(f2, c.Version); want != got {
		e.Fail("params-not-reproduced", attrs, "%s: the filter rebuilt from (%s, %s) has effective parameters %+v, the encoder used %+v", c.Desc, name, gen.Show(dict), got, want)
		return
	}

	src := simio.NewReader(encoded, rsched)
	src.EOFWithData = eofWithData
	src.ZeroReads = zeroReads
	rc, err := f2.Decode(c.Version, src, membudget.New(1<<30))
	if err != nil {
		e.Fail("decode-error", attrs, "%s: Decode: %v", c.Desc, err)
		return
	}
	got, err := simio.Drain(rc, dsched, len(data)+1<<20)
	rc.Close()
	e.Steps(src.Calls)
	if err != nil {
		e.Fail("decode-error", attrs, "%s: reading decoded data (%d of %d bytes so far): %v", c.Desc, len(got), len(data), err)
		return
	}
	if !bytes.Equal(got, data) {
		e.Fail("roundtrip", attrs, "%s v%s: %d bytes in, %d bytes out, first difference at %d (encoded %d bytes)", c.Desc, c.Version, len(data), len(got), firstDiff(data, got), len(encoded))
		return
	}
	if c.Kind == "CCITT" && len(data) > 0 {
		e.Probe(fmt.Sprintf("ccitt ok K=%s EOL=%s Align=%s EOB=%s Rows=%s", attrs["K"], attrs["EndOfLine"], attrs["ByteAlign"], attrs["EndOfBlock"], attrs["Rows"]))
	}
}

// effectiveFilter maps a filter value to its effective parameters (defaults
// filled in, shorthands resolved), so that the filter handed to Encode can be
// compared with the one MakeFilter rebuilds from the emitted dictionary.
func effectiveFilter(f pdf.Filter, v pdf.Version) any {
	norm := func(p pdf.FlatePredictor, colors, bpc, cols int) [4]int {
		if p == 0 {
			p = 1
		}
		if p == 1 {
			return [4]int{1, 0, 0, 0}
		}
		if colors == 0 {
			colors = 1
		}
		if bpc == 0 {
			bpc = 8
		}
		if cols == 0 {
			cols = 1
		}
		return [4]int{int(p), colors, bpc, cols}
	}
	switch x := f.(type) {
	case pdf.FilterFlate:
		return struct {
			Kind string
			P    [4]int
		}{"Flate", norm(x.Predictor, x.Colors, x.BitsPerComponent, x.Columns)}
	case pdf.FilterLZW:
		return struct {
			Kind     string
			P        [4]int
			OffByOne bool
		}{"LZW", norm(x.Predictor, x.Colors, x.BitsPerComponent, x.Columns), x.OffByOne}
	case pdf.FilterCompress:
		if v >= pdf.V1_2 {
			return effectiveFilter(pdf.FilterFlate(x), v)
		}
		return effectiveFilter(pdf.FilterLZW{Predictor: x.Predictor, Colors: x.Colors, BitsPerComponent: x.BitsPerComponent, Columns: x.Columns, OffByOne: true}, v)
	case pdf.FilterCCITTFax:
		if x.K < 0 {
			x.K = -1
		}
		if x.Columns == 0 {
			x.Columns = 1728
		}
		return x
	}
	return fmt.Sprintf("%T", f)
}

// effective normalises a parameter dictionary to its effective meaning:
// every negative /K selects Group 4.
func effective(d pdf.Dict) pdf.Dict {
	if d == nil {
		return nil
	}
	c := gen.Clone(d).(pdf.Dict)
	if k, ok := c["K"].(pdf.Integer); ok && k < 0 {
		c["K"] = pdf.Integer(-1)
	}
	return c
}

func firstDiff(a, b []byte) int {
	n := min(len(a), len(b))
	for i := 0; i < n; i++ {
		if a[i] != b[i] {
			return i
		}
	}
	return n
}

// chainMode sends data through 1..3 filters via Writer.OpenStream and back
// through DecodeStream.
func chainMode(e *core.Env) {
	t := e.T
	n := 1 + t.Draw("chain.n", 3)
	var filters []pdf.Filter
	var descs []string
	var last fgen.Case
	version := pdf.Version(0)
	attrs := map[string]string{"filter": "chain", "mode": "chain"}
	for i := 0; i < n; i++ {
		// only the filter that sees the caller's data can rely on whole rows
		var c fgen.Case
		var ok bool
		for try := 0; try < 8; try++ {
			l := fmt.Sprintf("chain.f%d.%d", i, try)
			if i == n-1 {
				c, ok = fgen.Draw(t, l, true)
			} else {
				c, ok = fgen.DrawNoRows(t, l)
			}
			if !ok {
				continue
			}
			if i == 0 {
				version = c.Version
			}
			if _, _, err := c.Filter.Info(version); err != nil {
				ok = false
				continue
			}
			break
		}
		if !ok {
			e.Skip("no accepted parameter set drawn")
			return
		}
		filters = append(filters, c.Filter)
		descs = append(descs, c.Desc)
		last = c
	}
	last.Version = version
	if last.Kind == "CCITT" {
		for k, v := range last.Class {
			attrs[k] = v
		}
		attrs["filter"] = "CCITT"
		attrs["Rows"] = "omitted"
	}
	data := fgen.Data(t, "chain.data", &last, 12000)
	wsched := simio.NewSchedule(t, "chain.wsched", last.RowBytes)
	dsched := simio.NewSchedule(t, "chain.dsched", 0)
	sinkKind := simdisk.SinkKind(t.Draw("chain.sink", int(simdisk.NumSinkKinds)))
	e.Note("case", fmt.Sprintf("chain %v v%s len=%d sink=%s", descs, version, len(data), sinkKind))
	e.Sig("chain", descs, version, len(data), wsched.Describe(), dsched.Describe(), sinkKind)
	if len(data) > 0 {
		e.Nontrivial()
	}
	e.Probe(fmt.Sprintf("chain of %d", n))

	disk := simdisk.NewDisk()
	w, err := pdf.NewWriter(disk.Sink(sinkKind), version, nil)
	if err != nil {
		e.Skip("NewWriter: " + err.Error())
		return
	}
	ref := w.Alloc()
	ws, err := w.OpenStream(ref, pdf.Dict{}, filters...)
	if err != nil {
		e.Fail("encode-error", attrs, "OpenStream %v: %v", descs, err)
		return
	}
	if err := simio.WriteChunked(ws, data, wsched); err != nil {
		e.Fail("encode-error", attrs, "chain %v: Write: %v", descs, err)
		return
	}
	if err := ws.Close(); err != nil {
		e.Fail("encode-error", attrs, "chain %v: Close: %v", descs, err)
		return
	}
	pages := w.Alloc()
	w.Put(pages, pdf.Dict{"Type": pdf.Name("Pages"), "Kids": pdf.Array{}, "Count": pdf.Integer(0)})
	w.GetMeta().Catalog.Pages = pages
	if err := w.Close(); err != nil {
		e.Fail("encode-error", attrs, "chain %v: Writer.Close: %v", descs, err)
		return
	}
	h := simdisk.NewHandle(disk.Data)
	h.EOFAtEnd = t.Bool("chain.eofAtEnd", 1, 2)
	r, err := pdf.NewReader(h, int64(len(disk.Data)), nil)
	if err != nil {
		e.Fail("decode-error", attrs, "chain %v: NewReader: %v", descs, err)
		return
	}
	obj, err := r.Get(ref, true)
	stm, ok := obj.(*pdf.Stream)
	if err != nil || !ok {
		e.Fail("decode-error", attrs, "chain %v: Get: %v %T", descs, err, obj)
		return
	}
	rc, err := pdf.DecodeStream(r, nil, stm)
	if err != nil {
		e.Fail("decode-error", attrs, "chain %v: DecodeStream: %v", descs, err)
		return
	}
	got, err := simio.Drain(rc, dsched, len(data)+1<<20)
	rc.Close()
	if t.Bool("chain.doubleclose", 1, 4) {
		rc.Close() // a deferred Close next to an explicit one
		e.Probe("reader closed twice")
	}
	if err != nil {
		e.Fail("decode-error", attrs, "chain %v: reading (%d of %d bytes): %v", descs, len(got), len(data), err)
		return
	}
	if !bytes.Equal(got, data) {
		e.Fail("roundtrip", attrs, "chain %v v%s: %d bytes in, %d out, first difference at %d", descs, version, len(data), len(got), firstDiff(data, got))
		return
	}
	// "however the reads are chunked" includes reads of other streams in
	// between: after this chain was decoded and closed, two Flate streams that
	// are open at the same time must still decode to their own data (the
	// decoders share a pool of zlib readers)
	if err := core.FlateCanary(); err != nil {
		e.Fail("pool-corrupted", map[string]string{"mode": "chain"}, "chain %v: after DecodeStream+Close two Flate streams open at the same time interfere: %v", descs, err)
	}
}

var _ = io.EOF
var _ = tape.Mix

// Regression for f750aef (ASCII85 lost the tail of the final group when read
// with a small buffer) generalised: every parameterless filter and Flate/LZW,
// inputs of 0..17 bytes, consumer buffers of 1, 2, 3 and 5 bytes.
var corners = map[string]func(e *core.Env){
	// Regression for 97c96c6: a second Close of a Flate encoder put its
	// compressor into the package-level pool a second time.
	"flate-encoder-double-close": func(e *core.Env) {
		runtime.GC()
		runtime.GC()
		s := &sink{}
		enc, err := pdf.FilterFlate{}.Encode(pdf.V1_7, s)
		if err != nil {
			e.Fail("encode-error", map[string]string{"filter": "Flate"}, "Encode: %v", err)
			return
		}
		enc.Write(bytes.Repeat([]byte("double close "), 50))
		enc.Close()
		enc.Close()
		if err := core.FlateEncodeCanary(); err != nil {
			e.Fail("pool-corrupted", map[string]string{"mode": "encoder"}, "after a Flate encoder was closed twice: %v", err)
		}
	},
	"tiny-buffers-every-filter": func(e *core.Env) {
		filters := []pdf.Filter{pdf.FilterASCII85{}, pdf.FilterASCIIHex{}, pdf.FilterRunLength{}, pdf.FilterFlate{}, pdf.FilterLZW{}, pdf.FilterLZW{OffByOne: true},
			pdf.FilterFlate{Predictor: pdf.FlatePredictorPNGUp, Columns: 1}, pdf.FilterCCITTFax{K: -1, Columns: 8}}
		for _, f := range filters {
			for n := 0; n <= 17; n++ {
				data := []byte("\x00\x00\x00\x00abcdefghijklm")[:n]
				for _, bs := range []int{1, 2, 3, 5} {
					s := &sink{}
					enc, err := f.Encode(pdf.V1_7, s)
					if err != nil {
						e.Fail("encode-error", map[string]string{"filter": fmt.Sprintf("%T", f)}, "%T: %v", f, err)
						return
					}
					enc.Write(data)
					enc.Close()
					name, dict, _ := f.Info(pdf.V1_7)
					f2, _ := pdf.MakeFilter(name, dict)
					rc, err := f2.Decode(pdf.V1_7, bytes.NewReader(s.buf.Bytes()), membudget.New(1<<30))
					if err != nil {
						e.Fail("decode-error", map[string]string{"filter": fmt.Sprintf("%T", f)}, "%T: %v", f, err)
						return
					}
					var got []byte
					buf := make([]byte, bs)
					for i := 0; i < 1000; i++ {
						k, err := rc.Read(buf)
						got = append(got, buf[:k]...)
						if err != nil {
							if err != io.EOF {
								e.Fail("decode-error", map[string]string{"filter": fmt.Sprintf("%T", f)}, "%T len=%d buffer=%d: %v", f, n, bs, err)
								return
							}
							break
						}
					}
					if !bytes.Equal(got, data) {
						e.Fail("roundtrip", map[string]string{"filter": fmt.Sprintf("%T", f)}, "%#v: %q read with %d-byte buffers gives %q", f, data, bs, got)
						return
					}
				}
			}
		}
	},
}
