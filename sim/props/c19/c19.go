// Package c19 checks property C19: I/O failures surface as I/O failures.
// Per generated document every ReadAt index (read side) and every Write/Seek
// index (write side) is enumerated as a fault point.
package c19

import (
	"bytes"
	"errors"
	"fmt"
	"io"
	"sort"
	"strings"

	"seehuhn.de/go/pdf"
	"verif/sim/core"
	"verif/sim/gen"
	"verif/sim/props/c04"
	"verif/sim/props/c11"
	"verif/sim/simdisk"
	"verif/sim/tape"
	"verif/sim/wprog"
)

func init() {
	core.Register(&core.Prop{
		ID:    "C19",
		Level: "fault_enumeration",
		Rule: "one case = one generated document (write program as in C02, small) together with a side (read or write) and a reader mode; for that case EVERY fault point is enumerated: " +
			"read side = every ReadAt index k of the scripted workload (open, Get of every object, DecodeStream+drain of every stream, cached Decode of every object, meta data) in the modes fail-from-k and fail-only-k (plus partial-data-with-error); " +
			"write side = every Write/Seek index k of the program in the modes error-once, error-persistent, short-write. Non-trivial = at least 5 fault points enumerated; distinct = different hash of (document shape, side, mode). " +
			"Fault points per case are reported under logical_steps.",
		Assumptions: []string{
			"only ReadAt (read side) and Write/Seek (write side) are failed, as the statement says; Flush of self-flushing sinks is not failed",
			"after a transient (fail-only-k) fault, later calls must again return the fault-free result; a call may fail only with an error that wraps the injected error and is not IsMalformed",
			"the order of ReadAt calls may depend on Go map iteration inside the library; all indices are enumerated, so coverage does not depend on that order",
		},
		Real:     []string{"seehuhn.de/go/pdf Reader, Writer, scanner, xref, filters, crypto, Decode cache (working tree)"},
		Stub:     []string{"io.ReaderAt with scripted failures", "sinks with scripted failures (3 kinds + self-flushing)", "crypto/rand.Reader"},
		Quick:    core.Budget{Runs: 4000, Secs: 150},
		Thorough: core.Budget{Runs: 600000, Secs: 900},
		Run:      Run,
		Corners:  corners,
	})
}

var restrict = wprog.Restrict{MaxOps: 7, MaxBody: 2500, SmallValues: true}
var restrictWrite = wprog.Restrict{MaxOps: 7, MaxBody: 2500, SmallValues: true, Bulk: true, BulkOneIn: 8}

func Run(e *core.Env) {
	side := e.T.Weighted("side", 6, 4, 2, 1)
	if side == 3 {
		// read side on a revision history from the independent serialiser:
		// hybrid sections, /Prev chains, streams with missing, wrong or
		// unresolvable /Length (the reader's recovery paths read as well)
		img, _, ok := c04.Image(e.T)
		if !ok {
			e.Skip("history not renderable")
			return
		}
		t := e.T
		var refs []pdf.Reference
		for n := uint32(1); n <= 8; n++ {
			refs = append(refs, pdf.NewReference(n, 0))
		}
		opt := &pdf.ReaderOptions{ErrorHandling: pdf.ReaderErrorHandling(t.Draw("read.mode", 3))}
		eofAtEnd := t.Bool("read.eofAtEnd", 1, 2)
		e.Probe("read side on a hand-serialised revision history")
		e.Sig("history", len(img), int(opt.ErrorHandling), eofAtEnd)
		e.Nontrivial()
		readEnum(e, img, opt, eofAtEnd, refs)
		return
	}
	if side == 2 {
		// read side on a document from the independent serialiser: indirect
		// /Filter, /DecodeParms and /Length, reference chains, free objects
		img, refs, ok := c11.Image(e.T)
		if !ok {
			e.Skip("graph not renderable")
			return
		}
		t := e.T
		opt := &pdf.ReaderOptions{ErrorHandling: pdf.ReaderErrorHandling(t.Draw("read.mode", 3))}
		eofAtEnd := t.Bool("read.eofAtEnd", 1, 2)
		e.Probe("read side on a hand-serialised object graph")
		e.Sig("graph", len(img), len(refs), int(opt.ErrorHandling), eofAtEnd)
		e.Nontrivial()
		readEnum(e, img, opt, eofAtEnd, refs)
		return
	}
	r := &restrict
	if side == 1 {
		// write side: some programs write thousands of objects, so that the
		// cross-reference data no longer fits the Writer's buffers (the sink
		// sees a few dozen calls all the same)
		r = &restrictWrite
	}
	cfg := wprog.DrawConfig(e.T, r)
	// capture the program's sub-tape so that it can be re-executed verbatim
	e.T.StartCapture()
	disk := simdisk.NewDisk()
	res := wprog.Execute(e.T, cfg, r, disk.Sink(cfg.Sink))
	prog := e.T.StopCapture()
	for k, v := range res.Probes {
		e.ProbeN(k, v)
	}
	e.Note("config", cfg.String())
	e.Note("ops", res.OpNames)
	if res.Err != nil {
		e.Skip("writer rejected " + res.ErrOp)
		return
	}
	if side == 0 {
		readSide(e, res, disk.Data)
	} else {
		writeSide(e, cfg, prog, disk)
	}
}

// ---------------------------------------------------------------------------
// read side

type step struct {
	name string
	val  string // rendered value ("" if err)
	err  error
}

// workload runs the scripted read workload on the handle and returns one
// result per step.
func workload(h *simdisk.Handle, size int64, opt *pdf.ReaderOptions, refs []pdf.Reference) []step {
	var steps []step
	r, err := pdf.NewReader(h, size, opt)
	steps = append(steps, step{name: "NewReader", err: err})
	if err != nil {
		return steps
	}
	meta := r.GetMeta()
	xmpTitle := ""
	if meta.Catalog != nil {
		xmpTitle = wprog.MetadataTitle(meta.Catalog.Metadata)
	}
	steps = append(steps, step{name: "meta", val: fmt.Sprintf("v=%s id=%x info=%s pages=%v errors=%d xmp=%q", meta.Version, meta.ID, showInfo(meta.Info), meta.Catalog != nil && meta.Catalog.Pages != 0, len(r.Errors), xmpTitle)})
	x := pdf.NewExtractor(r)
	for _, ref := range refs {
		obj, err := r.Get(ref, true)
		name := fmt.Sprintf("Get(%d,%d)", ref.Number(), ref.Generation())
		if err != nil {
			steps = append(steps, step{name: name, err: err})
			continue
		}
		stm, isStream := obj.(*pdf.Stream)
		if !isStream {
			steps = append(steps, step{name: name, val: gen.Show(obj)})
		} else {
			steps = append(steps, step{name: name, val: "stream " + gen.Show(stm.Dict)})
			name = fmt.Sprintf("DecodeStream(%d,%d)", ref.Number(), ref.Generation())
			rc, err := pdf.DecodeStream(r, nil, stm)
			if err != nil {
				steps = append(steps, step{name: name, err: err})
			} else {
				data, err := io.ReadAll(rc)
				rc.Close()
				if err != nil {
					steps = append(steps, step{name: name, err: err})
				} else {
					steps = append(steps, step{name: name, val: fmt.Sprintf("%d bytes %x", len(data), hash(data))})
				}
			}
		}
		// typed, cached decode of the same reference
		name = fmt.Sprintf("Decode(%d,%d)", ref.Number(), ref.Generation())
		v, err := pdf.Decode(pdf.CursorAt(x, nil), ref, decodeFn)
		if err != nil {
			steps = append(steps, step{name: name, err: err})
		} else {
			steps = append(steps, step{name: name, val: v})
		}
	}
	// every reference once more through the same Extractor: what the first
	// pass left in the cache - after a success or after a failure - must not
	// change the answer
	for _, ref := range refs {
		name := fmt.Sprintf("DecodeAgain(%d,%d)", ref.Number(), ref.Generation())
		v, err := pdf.Decode(pdf.CursorAt(x, nil), ref, decodeFn)
		if err != nil {
			steps = append(steps, step{name: name, err: err})
		} else {
			steps = append(steps, step{name: name, val: v})
		}
	}
	steps = append(steps, copyStep(r, refs))
	return steps
}

// decodeFn is the typed decoder of the workload: it renders the object and
// resolves the references found one level down, so that the decode function
// itself reads from the source (as every real decoder does).
func decodeFn(c pdf.Cursor, o pdf.Object, direct bool) (string, error) {
	var top pdf.Object = o
	if s, ok := o.(*pdf.Stream); ok {
		top = s.Dict
	}
	out := gen.Show(top)
	var subs []pdf.Object
	switch v := top.(type) {
	case pdf.Dict:
		keys := make([]string, 0, len(v))
		for k := range v {
			keys = append(keys, string(k))
		}
		sort.Strings(keys)
		for _, k := range keys {
			subs = append(subs, v[pdf.Name(k)])
		}
	case pdf.Array:
		subs = v
	}
	n := 0
	for _, sub := range subs {
		if _, isRef := sub.(pdf.Reference); !isRef || n >= 3 {
			continue
		}
		n++
		res, err := c.Resolve(sub)
		if err != nil {
			return "", err
		}
		if st, ok := res.(*pdf.Stream); ok {
			out += " -> stream " + gen.Show(st.Dict)
		} else {
			out += " -> " + gen.Show(res)
		}
	}
	return out, nil
}

// copyStep copies the first few references into a fresh in-memory target with
// a Copier, closes and reopens the target and renders what arrived there.  The
// source reader is the faulted one: a copy must either produce what it
// produces without the fault or report the source's error.
func copyStep(r *pdf.Reader, refs []pdf.Reference) step {
	st := step{name: "Copy"}
	var buf bytes.Buffer
	w, err := pdf.NewWriter(&buf, pdf.V2_0, nil)
	if err != nil {
		st.err = err
		return st
	}
	c := pdf.NewCopier(w, r)
	var copied []pdf.Reference
	for i, ref := range refs {
		if i >= 4 {
			break
		}
		nr, err := c.CopyReference(ref)
		if err != nil {
			st.err = err
			return st
		}
		copied = append(copied, nr)
	}
	pages := w.Alloc()
	w.Put(pages, pdf.Dict{"Type": pdf.Name("Pages"), "Kids": pdf.Array{}, "Count": pdf.Integer(0)})
	w.GetMeta().Catalog.Pages = pages
	if err := w.Close(); err != nil {
		st.err = err
		return st
	}
	tr, err := pdf.NewReader(bytes.NewReader(buf.Bytes()), int64(buf.Len()), nil)
	if err != nil {
		st.err = fmt.Errorf("target of the copy does not open: %w", err)
		return st
	}
	var parts []string
	for _, nr := range copied {
		obj, err := tr.Get(nr, true)
		if err != nil {
			parts = append(parts, "error")
			continue
		}
		if stm, ok := obj.(*pdf.Stream); ok {
			data := []byte(nil)
			if rc, err := pdf.DecodeStream(tr, nil, stm); err == nil {
				data, _ = io.ReadAll(rc)
				rc.Close()
			}
			parts = append(parts, fmt.Sprintf("stream %d bytes %x", len(data), hash(data)))
		} else if _, isRef := obj.(pdf.Reference); !isRef {
			// values only: object numbers in the target are not part of the result
			if d, isDict := obj.(pdf.Dict); isDict {
				parts = append(parts, fmt.Sprintf("dict with %d keys", len(d)))
			} else {
				parts = append(parts, fmt.Sprintf("%T", obj))
			}
		}
	}
	st.val = strings.Join(parts, "; ")
	return st
}

func hash(b []byte) uint64 { return tape.HashString(string(b)) }

func showInfo(i *pdf.Info) string {
	if i == nil {
		return "nil"
	}
	return fmt.Sprintf("{%q %q %q %v %v}", i.Title, i.Author, i.Keywords, i.CreationDate, i.Custom)
}

func readSide(e *core.Env, res *wprog.Result, image []byte) {
	t := e.T
	cfg := res.Cfg
	opt := &pdf.ReaderOptions{ErrorHandling: pdf.ReaderErrorHandling(t.Draw("read.mode", 3))}
	if cfg.Encrypted() {
		opt.Password = cfg.UserPW
		if opt.Password == "" {
			opt.Password = cfg.OwnerPW
		}
	}
	eofAtEnd := t.Bool("read.eofAtEnd", 1, 2)
	refs := res.SortedRefs()
	refs = append(refs, res.Foreign...)
	e.Sig(res.Shape(), "read", int(opt.ErrorHandling), eofAtEnd)
	readEnum(e, image, opt, eofAtEnd, refs)
}

// readEnum enumerates every ReadAt fault point of the scripted workload.
func readEnum(e *core.Env, image []byte, opt *pdf.ReaderOptions, eofAtEnd bool, refs []pdf.Reference) {
	ref := simdisk.NewHandle(image)
	ref.EOFAtEnd = eofAtEnd
	want := workload(ref, int64(len(image)), opt, refs)
	if want[0].err != nil {
		e.Skip("fault-free open failed")
		return
	}
	n := ref.Calls
	e.Note("read side", fmt.Sprintf("mode=%d eofAtEnd=%v ReadAt calls=%d steps=%d", opt.ErrorHandling, eofAtEnd, n, len(want)))
	if n >= 5 {
		e.Nontrivial()
	}
	modeNames := []string{"from-k", "only-k", "only-k-partial"}
	for mode := 0; mode < 3; mode++ {
		for k := 0; k < n; k++ {
			h := simdisk.NewHandle(image)
			h.EOFAtEnd = eofAtEnd
			switch mode {
			case 0:
				h.FailFrom = k
			case 1:
				h.FailOnly = k
			case 2:
				h.FailOnly = k
				h.PartialOnFail = true
			}
			got := workload(h, int64(len(image)), opt, refs)
			e.Steps(1)
			if h.Fired == 0 {
				// the workload made fewer calls this time (legal: call order may
				// depend on map iteration); nothing was injected
				e.Probe("fault point not reached")
				continue
			}
			e.FaultN("ReadAt "+modeNames[mode], 1)
			if msg, site := compare(want, got); msg != "" {
				e.Fail("read-fault", map[string]string{"site": site, "handling": fmt.Sprint(int(opt.ErrorHandling))},
					"ReadAt fault %s k=%d of %d (reader mode %d): %s", modeNames[mode], k, n, opt.ErrorHandling, msg)
				return
			}
		}
	}
}

// compare checks got against the fault-free results.  It returns a message
// and a site label if a step returned different data or an error that does
// not carry the injected error or is classified as malformed.
func compare(want, got []step) (string, string) {
	byName := map[string]step{}
	for _, w := range want {
		byName[w.name] = w
	}
	for _, g := range got {
		w, ok := byName[g.name]
		if !ok {
			return fmt.Sprintf("step %s does not occur in the fault-free run", g.name), "steps"
		}
		site := stepKind(g.name)
		if g.err != nil {
			if !errors.Is(g.err, simdisk.ErrInjected) {
				if w.err != nil && w.err.Error() == g.err.Error() {
					continue // the same (non-I/O) error as without the fault
				}
				return fmt.Sprintf("%s returned an error that does not carry the source's error: %v", g.name, g.err), site + ":error-lost"
			}
			if pdf.IsMalformed(g.err) {
				return fmt.Sprintf("%s blames the file for an I/O failure (IsMalformed): %v", g.name, g.err), site + ":blamed-on-file"
			}
			continue
		}
		if w.err != nil {
			// the fault-free run failed here; nothing to compare
			continue
		}
		if g.val != w.val {
			return fmt.Sprintf("%s silently returned different data: %s instead of %s", g.name, g.val, w.val), site + ":different-data"
		}
	}
	return "", ""
}

func stepKind(name string) string {
	for i := 0; i < len(name); i++ {
		if name[i] == '(' {
			return name[:i]
		}
	}
	return name
}

// ---------------------------------------------------------------------------
// write side

func writeSide(e *core.Env, cfg wprog.Config, prog []uint64, refDisk *simdisk.Disk) {
	n := refDisk.Ops
	e.Note("write side", fmt.Sprintf("sink ops=%d (writes=%d seeks=%d)", n, refDisk.Writes, refDisk.Seeks))
	e.Sig(cfg.String(), "write", len(prog))
	if n >= 5 {
		e.Nontrivial()
	}
	limit := n
	stride := 1
	if n > 600 {
		stride = (n + 599) / 600
		e.Probe("write fault points sampled (more than 600 ops)")
	}
	modeNames := []string{"error-once", "error-persistent", "short-write"}
	for mode := 0; mode < 3; mode++ {
		for k := 0; k < limit; k += stride {
			d := simdisk.NewDisk()
			d.FailAt = k
			switch mode {
			case 1:
				d.Persist = true
			case 2:
				d.Mode = simdisk.FailShort
				d.ShortCut = k % 7
			}
			res := wprog.Execute(tape.Replay(prog).NoRecord(), cfg, &restrictWrite, d.Sink(cfg.Sink))
			e.Steps(1)
			if d.Fired == 0 {
				e.Probe("fault point not reached")
				continue
			}
			e.FaultN("sink "+modeNames[mode], 1)
			if res.Err == nil {
				e.Fail("write-fault", map[string]string{"site": "swallowed", "sink": cfg.Sink.String()},
					"sink fault %s at op %d of %d (%s): every Writer call including Close returned nil", modeNames[mode], k, n, cfg.Sink)
				return
			}
			if !errors.Is(res.Err, simdisk.ErrInjected) {
				e.Fail("write-fault", map[string]string{"site": "error-lost", "sink": cfg.Sink.String()},
					"sink fault %s at op %d of %d (%s): %s returned %v, which does not carry the sink's error", modeNames[mode], k, n, cfg.Sink, res.ErrOp, res.Err)
				return
			}
		}
	}
}

var _ = bytes.Equal

// fixedDoc writes a small document by hand: Info, a stream with an indirect
// /Length (append-only sink) whose body contains EOL+"endstream" and ends in
// an EOL, an object stream where the version allows it.
func fixedDoc(v pdf.Version, sink simdisk.SinkKind) ([]byte, []pdf.Reference, error) {
	disk := simdisk.NewDisk()
	w, err := pdf.NewWriter(disk.Sink(sink), v, nil)
	if err != nil {
		return nil, nil, err
	}
	w.GetMeta().Info.Title = "fixed document"
	var refs []pdf.Reference
	r1 := w.Alloc()
	w.Put(r1, pdf.Dict{"A": pdf.Integer(1), "S": pdf.String("text")})
	r2 := w.Alloc()
	body := append(bytes.Repeat([]byte("x"), 1500), []byte("\nendstream\nmore data\n")...)
	if err := w.Put(r2, pdf.NewStream(pdf.Dict{"K": pdf.Name("V")}, body)); err != nil {
		return nil, nil, err
	}
	r3, r4 := w.Alloc(), w.Alloc()
	if err := w.WriteCompressed([]pdf.Reference{r3, r4}, pdf.Array{pdf.Integer(1), r1}, pdf.Dict{"B": pdf.Boolean(true)}); err != nil {
		return nil, nil, err
	}
	r5 := w.Alloc()
	ws, err := w.OpenStream(r5, pdf.Dict{}, pdf.FilterASCIIHex{})
	if err != nil {
		return nil, nil, err
	}
	ws.Write([]byte("short"))
	ws.Close()
	pages := w.Alloc()
	w.Put(pages, pdf.Dict{"Type": pdf.Name("Pages"), "Kids": pdf.Array{}, "Count": pdf.Integer(0)})
	w.GetMeta().Catalog.Pages = pages
	if err := w.Close(); err != nil {
		return nil, nil, err
	}
	refs = append(refs, r1, r2, r3, r4, r5, pages, pdf.NewReference(99, 0))
	return disk.Data, refs, nil
}

// Regressions for 65a5bd5 (shouldExit swallowed I/O errors in recover mode),
// 7ef06e8 (ReadStreamData turned I/O errors into the recovery path) and
// 2e011c9 (scanner spun forever after a partial read with an error): every
// fault point of a fixed document in every reader mode.
var corners = map[string]func(e *core.Env){
	"fixed-doc-every-read-fault": func(e *core.Env) {
		for _, v := range []pdf.Version{pdf.V1_7, pdf.V1_4} {
			for _, sink := range []simdisk.SinkKind{simdisk.AppendOnly, simdisk.Seekable} {
				image, refs, err := fixedDoc(v, sink)
				if err != nil {
					e.Skip("fixed document rejected: " + err.Error())
					return
				}
				for mode := 0; mode < 3; mode++ {
					for _, eof := range []bool{false, true} {
						readEnum(e, image, &pdf.ReaderOptions{ErrorHandling: pdf.ReaderErrorHandling(mode)}, eof, refs)
						if e.Failed() {
							return
						}
					}
				}
			}
		}
	},
}
