package forge

import (
	"fmt"

	"verif/sim/tape"
)

// LZW packs a drawn sequence of LZW codes (PDF flavour: MSB first, 9 to 12
// bits, clear = 256, end of data = 257).  Unlike the output of an encoder the
// sequence may go on without a clear code after the table is full, repeat the
// top code, use a code one beyond the table (the KwKwK case) at any time, or
// end without an end-of-data code.
func LZW(t *tape.Tape, lbl string) (data []byte, earlyChange int, desc string) {
	earlyChange = 1 - t.Draw(lbl+".early0", 2)
	var out []byte
	var acc uint32
	nacc := 0
	next, width := 258, 9
	first := true
	put := func(code int) {
		acc = acc<<uint(width) | uint32(code)
		nacc += width
		for nacc >= 8 {
			out = append(out, byte(acc>>uint(nacc-8)))
			nacc -= 8
		}
		switch code {
		case 256:
			next, width, first = 258, 9, true
			return
		case 257:
			return
		}
		if !first && next < 4096 {
			next++
		}
		first = false
		for width < 12 && next+earlyChange >= 1<<uint(width) {
			width++
		}
	}
	if t.Bool(lbl+".startclear", 3, 4) {
		put(256)
	}
	n := tape.Pick(t, lbl+".n", 50, 600, 3000, 4200, 6000, 9000)
	noClear := t.Bool(lbl+".noclear", 2, 3)
	st := t.Sub(lbl + ".codes")
	full := 0
	for i := 0; i < n; i++ {
		var code int
		switch r := st.Intn(100); {
		case first || r < 30:
			code = st.Intn(256)
		case r < 70:
			code = 258 + st.Intn(next-258+1) // any table entry, or the one being defined
			if code > 4095 {
				code = 4095
			}
		case r < 90:
			code = next - 1 - st.Intn(3)
			if code < 258 {
				code = st.Intn(256)
			}
		case r < 97:
			code = next // KwKwK
			if code > 4095 {
				code = 4095
			}
		case r < 99 && !noClear:
			code = 256
		default:
			code = next + 1 + st.Intn(3) // beyond the table: invalid
			if noClear || code > 4095 {
				code = st.Intn(256)
			}
		}
		if next >= 4096 {
			full++
			if st.Intn(2) == 0 {
				code = 4095
			}
		}
		put(code)
	}
	if t.Bool(lbl+".eod", 2, 3) {
		put(257)
	}
	if nacc > 0 {
		out = append(out, byte(acc<<uint(8-nacc)))
	}
	return out, earlyChange, fmt.Sprintf("forged lzw %d codes early=%d noclear=%v codes-after-full=%d", n, earlyChange, noClear, full)
}
