package forge

import (
	"bytes"
	"fmt"
	"io"
	"os"
	"regexp"
	"sort"
	"testing"

	"seehuhn.de/go/membudget"
	"seehuhn.de/go/pdf"
	"verif/sim/tape"
)

var digits = regexp.MustCompile(`[0-9]+`)

// TestReach tallies how the decoders answer forged streams; it is a tuning
// aid (go test -run TestReach -v ./forge), not a check.
func TestReach(t *testing.T) {
	if os.Getenv("FORGE_REACH") == "" {
		t.Skip("tuning aid")
	}
	for _, kind := range []string{"DCTDecode", "JBIG2Decode", "LZWDecode"} {
		tally := map[string]int{}
		for seed := uint64(1); seed <= 3000; seed++ {
			tp := tape.New(seed)
			var body, globals []byte
			var desc string
			var parms pdf.Dict
			if kind == "LZWDecode" {
				var ec int
				body, ec, _ = LZW(tp, "lz")
				parms = pdf.Dict{"EarlyChange": pdf.Integer(ec)}
			} else if kind == "DCTDecode" {
				body, desc = JPEG(tp, "fj")
			} else {
				body, globals, _ = JBIG2(tp, "jb")
			}
			f, err := pdf.MakeFilter(pdf.Name(kind), parms)
			if err != nil {
				t.Fatal(err)
			}
			if jf, ok := f.(*pdf.FilterJBIG2); ok {
				jf.Globals = globals
			}
			rc, err := f.Decode(pdf.V2_0, bytes.NewReader(body), membudget.New(8<<20+1024*int64(len(body))))
			var n int64
			if err == nil {
				n, err = io.Copy(io.Discard, rc)
				rc.Close()
			}
			key := "ok"
			if err != nil {
				key = digits.ReplaceAllString(err.Error(), "#")
				if len(key) > 90 {
					key = key[:90]
				}
			} else if n == 0 {
				key = "ok, empty"
			}
			tally[key]++
			if os.Getenv("FORGE_REACH") == "2" && desc != "" && seed < 60 {
				fmt.Println(seed, desc, len(body), key)
			}
		}
		var ks []string
		for k := range tally {
			ks = append(ks, k)
		}
		sort.Slice(ks, func(i, j int) bool { return tally[ks[i]] > tally[ks[j]] })
		fmt.Println("==", kind)
		for _, k := range ks {
			fmt.Printf("%5d  %s\n", tally[k], k)
		}
	}
}
