// Package forge assembles structurally plausible but hostile JPEG and JBIG2
// code streams marker by marker / segment by segment from tape choices.  It
// follows the format specifications (ITU T.81, T.88), not the decoders in the
// repository: the streams reach the deep parts of the decoders (progressive
// scan scheduling, restart intervals, halftone, text and symbol regions,
// refinement, custom Huffman tables) that random bytes and mutated stdlib
// encodings never reach.
package forge

import (
	"bytes"
	"fmt"

	"verif/sim/tape"
)

type jw struct{ bytes.Buffer }

func (w *jw) b(p ...byte) { w.Write(p) }
func (w *jw) u16(v int)   { w.b(byte(v>>8), byte(v)) }
func (w *jw) u32(v uint32) {
	w.b(byte(v>>24), byte(v>>16), byte(v>>8), byte(v))
}

// segment writes marker + length + payload.
func (w *jw) seg(marker byte, payload []byte) {
	w.b(0xff, marker)
	w.u16(len(payload) + 2)
	w.Write(payload)
}

// huffSpec builds a DHT payload for one table.  The first symbol may get a
// 1-bit code so that an all-zero entropy segment decodes to a run of it.
func huffSpec(class, id int, syms []byte, short, complete bool) []byte {
	var counts [16]byte
	n := len(syms)
	if n == 0 {
		return append([]byte{byte(class<<4 | id)}, counts[:]...)
	}
	if complete {
		// a complete prefix code (all codes of one length, at most 7 bits so
		// that the count fits a byte): every bit string decodes
		l := 1
		for 1<<l < n && l < 7 {
			l++
		}
		full := make([]byte, 1<<l)
		for i := range full {
			full[i] = syms[i%n]
		}
		counts[l-1] = byte(1 << l)
		out := append([]byte{byte(class<<4 | id)}, counts[:]...)
		return append(out, full...)
	}
	if short && n > 1 {
		counts[0] = 1
		rest := n - 1
		l := 2
		for (1<<(l-1))-1 < rest {
			l++
		}
		if l > 16 {
			l = 16
		}
		counts[l-1] = byte(rest)
	} else {
		l := 1
		for (1<<l)-1 < n {
			l++
		}
		counts[l-1] = byte(n)
	}
	out := append([]byte{byte(class<<4 | id)}, counts[:]...)
	return append(out, syms...)
}

// entropy draws the payload of one scan; 0xff bytes are stuffed unless the
// tape asks for raw markers.
func entropy(t *tape.Tape, lbl string, blocks int, cover bool) []byte {
	var n int
	wt := []int{3, 2, 5, 1}
	if cover {
		wt = []int{1, 1, 16, 1}
	}
	switch t.Weighted(lbl+".len", wt...) {
	case 0:
		n = t.Draw(lbl+".n", 8)
	case 1:
		n = t.Draw(lbl+".n", 128)
	case 2: // usually enough for every block of the scan
		n = 8 + blocks*tape.Pick(t, lbl+".perblock", 2, 4, 16)/tape.Pick(t, lbl+".div", 1, 1, 1, 1, 4, 16)
		if n > 1<<17 {
			n = 1 << 17
		}
	default:
		n = 1 + t.Draw(lbl+".n", 4096)
	}
	var out []byte
	switch t.Weighted(lbl+".kind", 8, 8, 1, 1) {
	case 0:
		out = make([]byte, n)
	case 1:
		st := t.Sub(lbl + ".rand")
		for i := 0; i < n; i++ {
			c := byte(st.Intn(256))
			out = append(out, c)
			if c == 0xff {
				out = append(out, 0)
			}
		}
	case 2:
		for i := 0; i < n; i++ {
			out = append(out, 0xff, 0)
		}
	default: // with restart markers sprinkled in
		st := t.Sub(lbl + ".rand")
		k := 0
		for i := 0; i < n; i++ {
			c := byte(st.Intn(255))
			out = append(out, c)
			if st.Intn(16) == 0 {
				out = append(out, 0xff, byte(0xd0+k%8))
				if st.Intn(8) != 0 {
					k++
				}
			}
		}
	}
	return out
}

var acPool = []byte{0x00, 0xf0, 0x10, 0x20, 0x30, 0x40, 0x80, 0xe0, 0xd0, 0x01, 0x11, 0x21, 0x02, 0x31, 0xf1, 0x03, 0x12, 0x0a, 0xfa, 0x05, 0x61, 0x41, 0x91}

// scanBomb assembles a progressive JPEG whose scans cost the decoder a pass
// over the whole image while carrying a few bytes each: the first AC symbol is
// an end-of-band run, the payload is all zero bits, and one scan kind is
// repeated many times.
func scanBomb(t *tape.Tape, lbl string) (data []byte, desc string) {
	w := &jw{}
	w.b(0xff, 0xd8)
	q := []byte{0}
	for i := 0; i < 64; i++ {
		q = append(q, 1)
	}
	w.seg(0xdb, q)
	dim := tape.Pick(t, lbl+".dim", 64, 256, 512, 1024, 2048)
	ncomp := tape.Pick(t, lbl+".ncomp", 1, 1, 3)
	p := []byte{8, byte(dim >> 8), byte(dim), byte(dim >> 8), byte(dim), byte(ncomp)}
	for c := 0; c < ncomp; c++ {
		p = append(p, byte(c+1), 0x11, 0)
	}
	w.seg(0xc2, p)
	run := tape.Pick(t, lbl+".run", byte(0xe0), 0xe0, 0xd0, 0xa0, 0x40)
	w.seg(0xc4, huffSpec(0, 0, []byte{0, 1, 2}, true, false))
	w.seg(0xc4, huffSpec(1, 0, []byte{run, 0x00, 0xf0, 0x01, 0x11}, true, t.Bool(lbl+".complete", 1, 2)))
	blocks := (dim / 8) * (dim / 8)
	nscans := 0
	scan := func(comps []int, ss, se, ah, al, rep, nbytes int) {
		sp := []byte{byte(len(comps))}
		for _, c := range comps {
			sp = append(sp, byte(c+1), 0)
		}
		sp = append(sp, byte(ss), byte(se), byte(ah<<4|al))
		for i := 0; i < rep; i++ {
			w.seg(0xda, sp)
			w.Write(make([]byte, nbytes))
			nscans++
		}
	}
	all := []int{0, 1, 2}[:ncomp]
	if t.Bool(lbl+".dcfirst", 2, 3) {
		scan(all, 0, 0, 0, 1, 1, 8+blocks*ncomp/4)
	}
	if t.Bool(lbl+".acfirst", 1, 2) {
		scan([]int{0}, 1, 63, 0, 1, 1, 2+t.Draw(lbl+".acfirst.n", 16))
	}
	rep := tape.Pick(t, lbl+".rep", 10, 70, 200, 700, 1500, 3000)
	nb := 2 + t.Draw(lbl+".nbytes", 10)
	c := []int{t.Draw(lbl+".comp", ncomp)}
	switch t.Draw(lbl+".kind", 4) {
	case 0:
		scan(all, 0, 0, 0, 0, rep, 8+blocks*ncomp/8)
	case 1:
		scan(all, 0, 0, 1, 0, rep, nb)
	case 2:
		scan(c, 1, 63, 0, 0, rep, nb)
	default:
		scan(c, 1, 63, 1, 0, rep, nb)
	}
	w.b(0xff, 0xd9)
	return w.Bytes(), fmt.Sprintf("forged jpeg scan bomb %dx%d ncomp=%d scans=%d", dim, dim, ncomp, nscans)
}

// JPEG assembles one JPEG stream.
func JPEG(t *tape.Tape, lbl string) (data []byte, desc string) {
	if t.Bool(lbl+".bomb", 1, 8) {
		return scanBomb(t, lbl+".bomb")
	}
	w := &jw{}
	w.b(0xff, 0xd8)
	hostile := t.Bool(lbl+".hostile", 1, 6) // structural violations allowed
	sof := tape.Pick(t, lbl+".sof", byte(0xc2), 0xc2, 0xc2, 0xc0, 0xc0, 0xc1)
	if hostile && t.Bool(lbl+".sof.odd", 1, 3) {
		sof = tape.Pick(t, lbl+".sof.v", byte(0xc3), 0xc9, 0xca, 0xc5)
	}
	progressive := sof == 0xc2
	dims := []int{1, 7, 8, 16, 17, 64, 200, 512, 1024, 2048, 4096, 65535, 0}
	wd := dims[t.Weighted(lbl+".w", 1, 1, 3, 3, 2, 3, 2, 2, 2, 1, 1, 0, 0)]
	ht := dims[t.Weighted(lbl+".h", 1, 1, 3, 3, 2, 3, 2, 2, 2, 1, 1, 0, 0)]
	ncomp := tape.Pick(t, lbl+".ncomp", 1, 1, 1, 3, 3, 4)
	if hostile {
		wd = dims[t.Draw(lbl+".w.any", len(dims))]
		ht = dims[t.Draw(lbl+".h.any", len(dims))]
		ncomp = tape.Pick(t, lbl+".ncomp.any", 1, 3, 4, 2, 0, 5)
	}
	if t.Bool(lbl+".adobe", 1, 4) {
		w.seg(0xee, append([]byte("Adobe\x00\x64\x00\x00\x00\x00"), byte(t.Draw(lbl+".adobe.tf", 4))))
	}
	if t.Bool(lbl+".jfif", 1, 6) {
		w.seg(0xe0, []byte("JFIF\x00\x01\x01\x00\x00\x01\x00\x01\x00\x00"))
	}
	// quantisation tables
	nq := 1 + t.Draw(lbl+".nq", 3)
	for q := 0; q < nq; q++ {
		p := []byte{byte(q)}
		fill := tape.Pick(t, lbl+".q.fill", byte(1), 1, 16, 255, 0)
		for i := 0; i < 64; i++ {
			p = append(p, fill)
		}
		if t.Bool(lbl+".q.16bit", 1, 10) {
			p = []byte{byte(0x10 | q)}
			for i := 0; i < 64; i++ {
				p = append(p, fill, fill)
			}
		}
		w.seg(0xdb, p)
	}
	// frame header
	maxH, maxV := 1, 1
	chromaH, chromaV := 1, 1
	{
		prec := 8
		if hostile {
			prec = tape.Pick(t, lbl+".prec", 8, 8, 8, 8, 12, 16, 0)
		}
		p := []byte{byte(prec)}
		p = append(p, byte(ht>>8), byte(ht), byte(wd>>8), byte(wd), byte(ncomp))
		for c := 0; c < ncomp; c++ {
			h, v := 1, 1
			if ncomp == 3 && c == 1 {
				// chroma sampling: usually 1x1, now and then more samples than
				// that (both chroma components alike)
				chromaH = tape.Pick(t, lbl+".samp.ch", 1, 1, 1, 1, 2, 1, 2)
				chromaV = tape.Pick(t, lbl+".samp.cv", 1, 1, 1, 1, 1, 2, 2)
			}
			if ncomp == 3 && c >= 1 {
				h, v = chromaH, chromaV
			}
			if c == 0 || ncomp == 4 && c == 3 {
				h = tape.Pick(t, lbl+".samp.h", 1, 1, 2, 2, 4)
				v = tape.Pick(t, lbl+".samp.v", 1, 1, 2, 2)
				if ncomp == 4 && c == 0 && h != v {
					h, v = 2, 2
				}
				if c == 3 {
					h, v = maxH, maxV
				}
			}
			if hostile {
				h = tape.Pick(t, lbl+".samp.h.any", 1, 1, 1, 2, 2, 4, 3, 0)
				v = tape.Pick(t, lbl+".samp.v.any", 1, 1, 1, 2, 2, 4, 3, 0)
			}
			if h > maxH {
				maxH = h
			}
			if v > maxV {
				maxV = v
			}
			id := c + 1
			if hostile && t.Bool(lbl+".samp.dupid", 1, 10) {
				id = 1
			}
			p = append(p, byte(id), byte(h<<4|v), byte(t.Draw(lbl+".samp.tq", nq+1)))
		}
		w.seg(sof, p)
	}
	blocks := ((wd + 7) / 8) * ((ht + 7) / 8)
	if blocks > 1<<18 {
		blocks = 1 << 18
	}
	// Huffman tables
	for id := 0; id < 2; id++ {
		// DC: categories
		dc := []byte{0, 1, 2, 3, 4, 5, 6, 7, 8, 9, 10, 11}
		if t.Bool(lbl+".dc.odd", 1, 8) {
			dc = []byte{byte(t.Draw(lbl+".dc.first", 17)), 0, 1, 15, 16}
		}
		w.seg(0xc4, huffSpec(0, id, dc, t.Bool(lbl+".dc.short", 1, 2), t.Bool(lbl+".dc.complete", 1, 2)))
		// AC: a drawn selection with a drawn first symbol
		first := acPool[t.Draw(lbl+".ac.first", len(acPool))]
		syms := []byte{first}
		for _, s := range acPool {
			if s != first && t.Bool(lbl+".ac.sel", 1, 2) {
				syms = append(syms, s)
			}
		}
		if t.Bool(lbl+".ac.all", 1, 6) {
			syms = syms[:1]
			for s := 0; s < 256 && len(syms) < 200; s++ {
				if byte(s) != first {
					syms = append(syms, byte(s))
				}
			}
		}
		w.seg(0xc4, huffSpec(1, id, syms, t.Bool(lbl+".ac.short", 2, 3), t.Bool(lbl+".ac.complete", 1, 2)))
	}
	if t.Bool(lbl+".dri", 1, 8) {
		w.seg(0xdd, []byte{0, byte(tape.Pick(t, lbl+".dri.n", 1, 2, 8, 200))})
	}
	// scans
	nscans := 0
	scan := func(l string, comps []int, ss, se, ah, al, rep int) {
		p := []byte{byte(len(comps))}
		for _, c := range comps {
			p = append(p, byte(c+1), byte(t.Draw(l+".td", 2)<<4|t.Draw(l+".ta", 2)))
		}
		p = append(p, byte(ss), byte(se), byte(ah<<4|al))
		data := entropy(t, l+".ent", blocks*len(comps)*maxH*maxV, !progressive || rep == 1 && t.Bool(l+".cover", 1, 2))
		if rep >= 70 && len(data) > 64 {
			data = data[:64]
		}
		for i := 0; i < rep; i++ {
			w.seg(0xda, p)
			w.Write(data)
			nscans++
		}
	}
	all := make([]int, 0, 4)
	for c := 0; c < ncomp && c < 4; c++ {
		all = append(all, c)
	}
	if !progressive {
		if ncomp <= 1 || t.Bool(lbl+".interleaved", 3, 4) {
			ss, se := 0, 63
			if hostile && t.Bool(lbl+".badspec", 1, 3) {
				ss, se = t.Draw(lbl+".ss", 64), t.Draw(lbl+".se", 64)
			}
			scan(lbl+".s0", all, ss, se, 0, 0, tape.Pick(t, lbl+".rep", 1, 1, 1, 1, 2, 3, 6, 11))
		} else {
			for c := range all {
				scan(fmt.Sprintf("%s.s%d", lbl, c), []int{c}, 0, 63, 0, 0, 1)
			}
		}
	} else {
		n := 1 + t.Draw(lbl+".nscan", 6)
		many := t.Bool(lbl+".many", 1, 3)
		manyAt := t.Draw(lbl+".manyAt", n)
		for i := 0; i < n; i++ {
			l := fmt.Sprintf("%s.s%d", lbl, i)
			rep := 1
			if many && i == manyAt {
				rep = tape.Pick(t, l+".rep", 2, 5, 70, 70, 300, 1500, 4000)
			}
			c := []int{0}
			if len(all) > 0 {
				c = []int{all[t.Draw(l+".comp", len(all))]}
			}
			switch t.Weighted(l+".kind", 2, 1, 3, 4, 1) {
			case 0: // DC first
				scan(l, all, 0, 0, 0, t.Draw(l+".al", 3), rep)
			case 1: // DC refinement
				al := t.Draw(l+".al", 3)
				scan(l, all, 0, 0, al+1, al, rep)
			case 2: // AC first
				ss := 1 + t.Draw(l+".ss", 8)
				scan(l, c, ss, tape.Pick(t, l+".se", 63, 63, ss+5, ss), 0, t.Draw(l+".al", 3), rep)
			case 3: // AC refinement
				al := t.Draw(l+".al", 3)
				ss := 1 + t.Draw(l+".ss", 8)
				scan(l, c, ss, tape.Pick(t, l+".se", 63, 63, ss+5, ss), al+1, al, rep)
			default: // anything
				scan(l, c, t.Draw(l+".ss", 64), t.Draw(l+".se", 64), t.Draw(l+".ah", 14), t.Draw(l+".al", 14), rep)
			}
		}
	}
	if !t.Bool(lbl+".noeoi", 1, 5) {
		w.b(0xff, 0xd9)
	}
	return w.Bytes(), fmt.Sprintf("forged jpeg sof=%02x %dx%d ncomp=%d scans=%d", sof, wd, ht, ncomp, nscans)
}
