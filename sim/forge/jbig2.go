package forge

import (
	"fmt"

	"verif/sim/tape"
)

// JBIG2 segment types (ITU T.88, 7.3)
const (
	jbSymbolDict  = 0
	jbTextInter   = 4
	jbTextImm     = 6
	jbTextImmLL   = 7
	jbPatternDict = 16
	jbHalfInter   = 20
	jbHalfImm     = 22
	jbHalfImmLL   = 23
	jbGenInter    = 36
	jbGenImm      = 38
	jbGenImmLL    = 39
	jbRefInter    = 40
	jbRefImm      = 42
	jbRefImmLL    = 43
	jbPageInfo    = 48
	jbEndOfPage   = 49
	jbEndOfStripe = 50
	jbEndOfFile   = 51
	jbProfiles    = 52
	jbTables      = 53
	jbExtension   = 62
)

type jbSeg struct {
	num  uint32
	typ  int
	refs []uint32
	page uint32
	data []byte
	// unknownLen writes 0xFFFFFFFF as the data length (allowed for
	// immediate generic regions)
	unknownLen bool
}

func (s *jbSeg) encode(w *jw, t *tape.Tape, lbl string) {
	w.u32(s.num)
	flags := byte(s.typ & 0x3f)
	bigPage := s.page > 255 || t.Bool(lbl+".bigpage", 1, 20)
	if bigPage {
		flags |= 0x40
	}
	if t.Bool(lbl+".deferred", 1, 30) {
		flags |= 0x80
	}
	w.b(flags)
	if len(s.refs) <= 4 && !t.Bool(lbl+".longrefs", 1, 30) {
		w.b(byte(len(s.refs)<<5) | byte(t.Draw(lbl+".retain", 32)))
	} else {
		w.u32(0xe0000000 | uint32(len(s.refs)))
		for i := 0; i < (len(s.refs)+8)/8; i++ {
			w.b(0xff)
		}
	}
	for _, r := range s.refs {
		switch {
		case s.num <= 256:
			w.b(byte(r))
		case s.num <= 65536:
			w.u16(int(r))
		default:
			w.u32(r)
		}
	}
	if bigPage {
		w.u32(s.page)
	} else {
		w.b(byte(s.page))
	}
	switch {
	case s.unknownLen:
		w.u32(0xffffffff)
	case t.Bool(lbl+".badlen", 1, 60):
		w.u32(uint32(len(s.data)) + uint32(tape.Pick(t, lbl+".badlen.d", 1, 1000, 0x7fffffff)))
	default:
		w.u32(uint32(len(s.data)))
	}
	w.Write(s.data)
}

func jbPayload(t *tape.Tape, lbl string) []byte {
	var n int
	switch t.Weighted(lbl+".len", 2, 4, 3, 1) {
	case 0:
		n = t.Draw(lbl+".n", 4)
	case 1:
		n = t.Draw(lbl+".n", 64)
	case 2:
		n = t.Draw(lbl+".n", 1024)
	default:
		n = t.Draw(lbl+".n", 20000)
	}
	out := make([]byte, n)
	switch t.Weighted(lbl+".kind", 4, 2, 1, 1) {
	case 0:
		t.Sub(lbl + ".rand").Read(out)
	case 1:
	case 2:
		for i := range out {
			out[i] = 0xff
		}
	default:
		st := t.Sub(lbl + ".rand")
		pat := tape.Pick(t, lbl+".pat", byte(0x00), 0xff, 0xac, 0x7f)
		for i := range out {
			out[i] = pat
			if st.Intn(4) == 0 {
				out[i] = byte(st.Intn(256))
			}
		}
	}
	return out
}

func jbDim(t *tape.Tape, lbl string, max int) uint32 {
	v := tape.Pick(t, lbl, 1, 2, 7, 8, 9, 16, 31, 32, 33, 64, 100, 256, 1000, 4096, 20000, 65535, 1<<20, 1<<31-1, -1, 0)
	if t.Bool(lbl+".inpage", 5, 6) && max > 0 && (v > max || v <= 0) {
		v = 1 + t.Draw(lbl+".v", max)
	}
	return uint32(v)
}

func regionInfo(w *jw, t *tape.Tape, lbl string, pw, ph int) (rw, rh int) {
	rwv := jbDim(t, lbl+".w", pw)
	rhv := jbDim(t, lbl+".h", ph)
	w.u32(rwv)
	w.u32(rhv)
	x, y := uint32(0), uint32(0)
	if t.Bool(lbl+".offset", 1, 3) {
		x = uint32(tape.Pick(t, lbl+".x", 1, 7, 8, 100, 1<<31-1, -1, -8))
		y = uint32(tape.Pick(t, lbl+".y", 1, 7, 8, 100, 1<<31-1, -1, -8))
	}
	w.u32(x)
	w.u32(y)
	w.b(byte(t.Draw(lbl+".combop", 5)) | byte(t.Draw(lbl+".rsv", 2))<<3)
	return int(int32(rwv)), int(int32(rhv))
}

func atBytes(w *jw, t *tape.Tape, lbl string, n int) {
	for i := 0; i < n; i++ {
		w.b(byte(tape.Pick(t, lbl+".at", 3, -1, -3, 2, -2, 0, 1, 127, -128, 8, -8, 100)))
	}
}

// JBIG2 assembles an embedded-format JBIG2 page stream and, optionally, a
// globals stream holding some of the dictionary segments.
func JBIG2(t *tape.Tape, lbl string) (page, globals []byte, desc string) {
	pw := int(int32(jbDim(t, lbl+".pw", 2000)))
	ph := int(int32(jbDim(t, lbl+".ph", 2000)))
	var segs []*jbSeg
	next := uint32(0)
	if t.Bool(lbl+".bignums", 1, 20) {
		next = tape.Pick(t, lbl+".numbase", uint32(250), 65530, 1<<31)
	}
	byType := map[int][]uint32{}
	add := func(s *jbSeg) {
		s.num = next
		next++
		if t.Bool(lbl+".numgap", 1, 20) {
			next += uint32(t.Draw(lbl+".gap", 5))
		}
		if t.Bool(lbl+".numdup", 1, 40) && next > 0 {
			next--
		}
		segs = append(segs, s)
		byType[s.typ] = append(byType[s.typ], s.num)
	}
	pickRefs := func(l string, typ int, max int) []uint32 {
		var out []uint32
		c := byType[typ]
		if len(c) == 0 {
			return nil
		}
		n := 1 + t.Draw(l+".nrefs", max)
		for i := 0; i < n; i++ {
			out = append(out, c[t.Draw(l+".ref", len(c))])
		}
		return out
	}
	// page information
	if !t.Bool(lbl+".nopage", 1, 25) {
		w := &jw{}
		w.u32(uint32(pw))
		w.u32(uint32(ph))
		w.u32(0)
		w.u32(0)
		w.b(byte(t.Draw(lbl+".pflags", 256)))
		stripe := 0
		if ph == -1 || t.Bool(lbl+".striped", 1, 6) {
			stripe = 0x8000 | tape.Pick(t, lbl+".stripe", 1, 8, 100, 0x7fff)
		}
		w.u16(stripe)
		add(&jbSeg{typ: jbPageInfo, page: 1, data: w.Bytes()})
	}
	maxw, maxh := pw, ph
	if maxw <= 0 || maxw > 4096 {
		maxw = 256
	}
	if maxh <= 0 || maxh > 4096 {
		maxh = 256
	}
	nseg := 1 + t.Weighted(lbl+".nseg", 4, 4, 3, 2, 1, 1)
	if nseg == 6 {
		nseg = 6 + t.Draw(lbl+".nseg.more", 40)
	}
	kinds := []string{}
	forced := -1
	for i := 0; i < nseg; i++ {
		l := fmt.Sprintf("%s.g%d", lbl, i)
		w := &jw{}
		s := &jbSeg{page: 1}
		typ := t.Weighted(l+".type", 5, 3, 4, 3, 4, 3, 2, 1, 1)
		if forced >= 0 {
			typ, forced = forced, -1
		} else if typ == 5 && len(byType[jbPatternDict]) == 0 && t.Bool(l+".needdict", 9, 10) {
			// a halftone region is only reached with a pattern dictionary
			typ, forced = 4, 5
			nseg++
		} else if typ == 3 && len(byType[jbSymbolDict]) == 0 && t.Bool(l+".needdict", 9, 10) {
			typ, forced = 2, 3
			nseg++
		}
		switch typ {
		case 0: // generic region
			s.typ = tape.Pick(t, l+".imm", jbGenImm, jbGenImm, jbGenImmLL, jbGenInter)
			regionInfo(w, t, l+".ri", maxw, maxh)
			mmr := t.Bool(l+".mmr", 1, 4)
			tmpl := t.Draw(l+".tmpl", 4)
			fl := byte(tmpl << 1)
			if mmr {
				fl |= 1
			}
			if t.Bool(l+".tpgd", 1, 3) {
				fl |= 8
			}
			ext := t.Bool(l+".ext", 1, 10)
			if ext {
				fl |= 0x10
			}
			w.b(fl)
			if !mmr {
				switch {
				case tmpl == 0 && ext:
					atBytes(w, t, l, 24)
				case tmpl == 0:
					atBytes(w, t, l, 8)
				default:
					atBytes(w, t, l, 2)
				}
			}
			w.Write(jbPayload(t, l+".data"))
			if s.typ != jbGenInter && t.Bool(l+".unknownlen", 1, 8) {
				s.unknownLen = true
				// row count follows the data
				if mmr {
					w.b(0, 0)
				} else {
					w.b(0xff, 0xac)
				}
				w.u32(uint32(t.Draw(l+".rows", 300)))
			}
			kinds = append(kinds, "generic")
		case 1: // refinement region
			s.typ = tape.Pick(t, l+".imm", jbRefImm, jbRefImmLL, jbRefInter)
			regionInfo(w, t, l+".ri", maxw, maxh)
			tmpl := t.Draw(l+".tmpl", 2)
			fl := byte(tmpl)
			if t.Bool(l+".tpgr", 1, 3) {
				fl |= 2
			}
			w.b(fl)
			if tmpl == 0 {
				atBytes(w, t, l, 4)
			}
			w.Write(jbPayload(t, l+".data"))
			if t.Bool(l+".hasref", 1, 2) {
				src := tape.Pick(t, l+".reftype", jbGenInter, jbRefInter, jbTextInter, jbHalfInter)
				s.refs = pickRefs(l, src, 1)
			}
			kinds = append(kinds, "refine")
		case 2: // symbol dictionary
			s.typ = jbSymbolDict
			huff := t.Bool(l+".huff", 1, 3)
			refagg := t.Bool(l+".refagg", 1, 3)
			tmpl := t.Draw(l+".tmpl", 4)
			rtmpl := t.Draw(l+".rtmpl", 2)
			fl := 0
			if huff {
				fl |= 1
				fl |= t.Draw(l+".huffsel", 256) << 2 // DH, DW, BMSIZE, AGGINST selections
			}
			if refagg {
				fl |= 2
			}
			if t.Bool(l+".ctxused", 1, 6) {
				fl |= 1 << 8
			}
			if t.Bool(l+".ctxretained", 1, 6) {
				fl |= 1 << 9
			}
			fl |= tmpl << 10
			fl |= rtmpl << 12
			w.u16(fl)
			if !huff {
				if tmpl == 0 {
					atBytes(w, t, l, 8)
				} else {
					atBytes(w, t, l, 2)
				}
			}
			if refagg && rtmpl == 0 {
				atBytes(w, t, l, 4)
			}
			nnew := tape.Pick(t, l+".nnew", 1, 1, 2, 3, 4, 8, 8, 20, 40, 1000, 1<<20, 1<<31-1, 0)
			nex := nnew
			if t.Bool(l+".exdiffer", 1, 3) {
				nex = tape.Pick(t, l+".nex", 0, 1, 2, 5, 1<<20, 1<<31-1)
			}
			w.u32(uint32(nex))
			w.u32(uint32(nnew))
			w.Write(jbPayload(t, l+".data"))
			s.refs = pickRefs(l, jbSymbolDict, 2)
			if huff && t.Bool(l+".tables", 1, 2) {
				s.refs = append(s.refs, pickRefs(l+".t", jbTables, 4)...)
			}
			if t.Bool(l+".global", 1, 3) {
				s.page = 0
			}
			kinds = append(kinds, "symdict")
		case 3: // text region
			s.typ = tape.Pick(t, l+".imm", jbTextImm, jbTextImm, jbTextImmLL, jbTextInter)
			regionInfo(w, t, l+".ri", maxw, maxh)
			huff := t.Bool(l+".huff", 1, 3)
			refine := t.Bool(l+".refine", 1, 3)
			fl := t.Draw(l+".flags", 1<<16) &^ 3
			if t.Bool(l+".zerods", 2, 3) {
				fl &^= 0x1f << 10
			}
			if huff {
				fl |= 1
			}
			if refine {
				fl |= 2
			}
			w.u16(fl)
			if huff {
				w.u16(t.Draw(l+".hflags", 1<<15))
			}
			if refine && fl>>15 == 0 {
				atBytes(w, t, l, 4)
			}
			w.u32(uint32(tape.Pick(t, l+".ninst", 1, 2, 3, 10, 100, 5000, 1<<24, 1<<31-1, 0)))
			w.Write(jbPayload(t, l+".data"))
			s.refs = pickRefs(l, jbSymbolDict, 3)
			if huff && t.Bool(l+".tables", 1, 2) {
				s.refs = append(s.refs, pickRefs(l+".t", jbTables, 4)...)
			}
			kinds = append(kinds, "text")
		case 4: // pattern dictionary
			s.typ = jbPatternDict
			fl := byte(t.Draw(l+".tmpl", 4) << 1)
			if t.Bool(l+".mmr", 1, 4) {
				fl |= 1
			}
			w.b(fl)
			w.b(byte(tape.Pick(t, l+".hdpw", 1, 2, 3, 4, 4, 4, 5, 8, 8, 8, 16, 32, 255, 0)))
			w.b(byte(tape.Pick(t, l+".hdph", 1, 2, 3, 4, 4, 4, 5, 8, 8, 8, 16, 32, 255, 0)))
			w.u32(uint32(tape.Pick(t, l+".graymax", 0, 1, 2, 3, 4, 5, 6, 7, 8, 15, 16, 63, 100, 255, 1000, 65535, 1<<24, 1<<31-1, -1)))
			w.Write(jbPayload(t, l+".data"))
			if t.Bool(l+".global", 1, 3) {
				s.page = 0
			}
			kinds = append(kinds, "patdict")
		case 5: // halftone region
			s.typ = tape.Pick(t, l+".imm", jbHalfImm, jbHalfImm, jbHalfImmLL, jbHalfInter)
			regionInfo(w, t, l+".ri", maxw, maxh)
			w.b(byte(t.Draw(l+".flags", 256)) &^ byte(t.Draw(l+".nommr", 2)))
			w.u32(uint32(tape.Pick(t, l+".hgw", 1, 2, 4, 8, 16, 33, 100, 1000, 65535, 1<<24, 1<<31-1, -1, 0)))
			w.u32(uint32(tape.Pick(t, l+".hgh", 1, 2, 4, 8, 16, 33, 100, 1000, 65535, 1<<24, 1<<31-1, -1, 0)))
			w.u32(uint32(tape.Pick(t, l+".hgx", 0, 0, 256, -256, 1<<30, -1<<31, 1<<31-1)))
			w.u32(uint32(tape.Pick(t, l+".hgy", 0, 0, 256, -256, 1<<30, -1<<31, 1<<31-1)))
			w.u16(tape.Pick(t, l+".hrx", 256, 1024, 2048, 0, 1, 65535, 0x8000))
			w.u16(tape.Pick(t, l+".hry", 0, 256, 1024, 2048, 1, 65535, 0x8000))
			w.Write(jbPayload(t, l+".data"))
			s.refs = pickRefs(l, jbPatternDict, 1)
			kinds = append(kinds, "halftone")
		case 6: // custom Huffman table
			s.typ = jbTables
			w.b(byte(t.Draw(l+".flags", 128)))
			lo := tape.Pick(t, l+".lo", 0, 0, -16, -1000, -1<<31, 1<<30)
			hi := tape.Pick(t, l+".hi", 1, 16, 64, 1000, 1<<20, 1<<31-1, -5)
			w.u32(uint32(lo))
			w.u32(uint32(hi))
			w.Write(jbPayload(t, l+".data"))
			if t.Bool(l+".global", 1, 3) {
				s.page = 0
			}
			kinds = append(kinds, "table")
		case 7: // stripes, extensions, profiles, unknown types
			s.typ = tape.Pick(t, l+".misc", jbEndOfStripe, jbEndOfStripe, jbExtension, jbProfiles, jbEndOfFile, jbEndOfPage, 1, 63, 24)
			if s.typ == jbEndOfStripe {
				w.u32(uint32(tape.Pick(t, l+".y", 0, 7, 100, 1<<31-1, -1)))
			} else {
				w.Write(jbPayload(t, l+".data"))
			}
			kinds = append(kinds, "misc")
		default: // second page information
			s.typ = jbPageInfo
			w.u32(jbDim(t, l+".pw", 0))
			w.u32(jbDim(t, l+".ph", 0))
			w.u32(0)
			w.u32(0)
			w.b(byte(t.Draw(l+".pflags", 256)))
			w.u16(t.Draw(l+".stripe", 1<<16))
			kinds = append(kinds, "page")
		}
		if t.Bool(l+".wildref", 1, 25) {
			s.refs = append(s.refs, uint32(t.Draw(l+".wild", 300)))
		}
		if t.Bool(l+".otherpage", 1, 30) {
			s.page = uint32(tape.Pick(t, l+".page", 0, 2, 255, 256, 1<<31))
		}
		s.data = w.Bytes()
		add(s)
	}
	if !t.Bool(lbl+".noeop", 1, 4) {
		add(&jbSeg{typ: jbEndOfPage, page: 1})
	}
	// split: global (page 0) dictionary segments may move to the globals stream
	useGlobals := t.Bool(lbl+".globals", 1, 3)
	pg, gl := &jw{}, &jw{}
	for i, s := range segs {
		l := fmt.Sprintf("%s.e%d", lbl, i)
		if useGlobals && s.page == 0 && (s.typ == jbSymbolDict || s.typ == jbPatternDict || s.typ == jbTables) {
			s.encode(gl, t, l)
		} else {
			s.encode(pg, t, l)
		}
	}
	if t.Bool(lbl+".fileheader", 1, 30) {
		// a file header does not belong into an embedded stream
		hdr := []byte{0x97, 0x4a, 0x42, 0x32, 0x0d, 0x0a, 0x1a, 0x0a, 1, 0, 0, 0, 1}
		page = append(hdr, pg.Bytes()...)
	} else {
		page = pg.Bytes()
	}
	if useGlobals {
		globals = gl.Bytes()
	}
	return page, globals, fmt.Sprintf("forged jbig2 page %dx%d segs=%v globals=%d bytes", pw, ph, kinds, len(globals))
}

// ValidJBIG2 assembles a small embedded JBIG2 stream that every conforming
// decoder accepts: page information, one immediate generic region covering the
// page (arithmetic coding, nominal adaptive pixels; any payload is a valid MQ
// code stream) and an end-of-page segment.
func ValidJBIG2(t *tape.Tape, lbl string) (data []byte, width, height int) {
	width = 1 + t.Draw(lbl+".w", 64)
	height = 1 + t.Draw(lbl+".h", 64)
	w := &jw{}
	seg := func(num uint32, typ byte, data []byte) {
		w.u32(num)
		w.b(typ, 0, 1)
		w.u32(uint32(len(data)))
		w.Write(data)
	}
	pi := &jw{}
	pi.u32(uint32(width))
	pi.u32(uint32(height))
	pi.u32(0)
	pi.u32(0)
	pi.b(0)
	pi.u16(0)
	seg(0, jbPageInfo, pi.Bytes())
	gr := &jw{}
	gr.u32(uint32(width))
	gr.u32(uint32(height))
	gr.u32(0)
	gr.u32(0)
	gr.b(0)
	tmpl := t.Draw(lbl+".tmpl", 4)
	gr.b(byte(tmpl << 1))
	switch tmpl {
	case 0:
		gr.b(3, 0xff, 0xfd, 0xff, 2, 0xfe, 0xfe, 0xfe)
	case 1:
		gr.b(3, 0xff)
	default:
		gr.b(2, 0xff)
	}
	payload := make([]byte, 8+t.Draw(lbl+".n", 120))
	t.Sub(lbl + ".rand").Read(payload)
	gr.Write(payload)
	seg(1, jbGenImm, gr.Bytes())
	seg(2, jbEndOfPage, nil)
	return w.Bytes(), width, height
}
