// Package tape is the single source of nondeterminism of a simulated run.
//
// Every decision a run takes (generated values, operations, configuration,
// which task runs next, chunk sizes, fault positions) is drawn through
// Tape.Draw.  In generate mode the values come from a SplitMix64 stream
// seeded with one integer; in replay mode they come from a recorded list.
// Draws past the end of a replay list return 0, and all generators are written
// so that 0 is the simplest choice.  That makes a tape shrinkable by generic
// passes that know nothing about the property.
package tape

import (
	"fmt"
)

// Rec is one recorded draw.
type Rec struct {
	Label string `json:"l"`
	N     uint64 `json:"n"`
	V     uint64 `json:"v"`
}

// Tape hands out choices.
type Tape struct {
	state   uint64
	replay  []uint64
	isRepl  bool
	pos     int
	rec     []Rec
	keepRec bool
	limit   int
	Over    bool // set when more than limit draws were requested
	capture []uint64
	capOn   bool
}

// StartCapture begins collecting the drawn values (independent of label
// recording); StopCapture returns them.  Used to re-execute a section of a
// run verbatim, e.g. once per enumerated fault point.
func (t *Tape) StartCapture() { t.capture = t.capture[:0]; t.capOn = true }
func (t *Tape) StopCapture() []uint64 {
	t.capOn = false
	return append([]uint64(nil), t.capture...)
}

// New returns a generating tape for the given seed.
func New(seed uint64) *Tape {
	return &Tape{state: seed, limit: 1 << 22, keepRec: true}
}

// Replay returns a tape that replays vals and then yields zeros.
func Replay(vals []uint64) *Tape {
	return &Tape{replay: vals, isRepl: true, limit: 1 << 22, keepRec: true}
}

// NoRecord switches off recording of labels (saves memory in bulk runs; the
// values can be regenerated from the seed).
func (t *Tape) NoRecord() *Tape { t.keepRec = false; return t }

func splitmix(s *uint64) uint64 {
	*s += 0x9e3779b97f4a7c15
	z := *s
	z = (z ^ (z >> 30)) * 0xbf58476d1ce4e5b9
	z = (z ^ (z >> 27)) * 0x94d049bb133111eb
	return z ^ (z >> 31)
}

// Mix derives a sub-seed from a seed and some integers.
func Mix(seed uint64, xs ...uint64) uint64 {
	s := seed
	r := splitmix(&s)
	for _, x := range xs {
		s ^= x * 0xff51afd7ed558ccd
		r ^= splitmix(&s)
	}
	return r
}

// HashString gives a stable 64 bit hash (FNV-1a) for use with Mix and
// signatures.
func HashString(s string) uint64 {
	h := uint64(14695981039346656037)
	for i := 0; i < len(s); i++ {
		h ^= uint64(s[i])
		h *= 1099511628211
	}
	return h
}

// Draw returns a value in [0,n).  n must be >= 1.
func (t *Tape) Draw(label string, n int) int {
	if n <= 0 {
		panic(fmt.Sprintf("tape.Draw(%q, %d)", label, n))
	}
	return int(t.Draw64(label, uint64(n)))
}

// Draw64 returns a value in [0,n); n == 0 means the full 64 bit range.
func (t *Tape) Draw64(label string, n uint64) uint64 {
	var v uint64
	if t.pos >= t.limit {
		t.Over = true
		v = 0
	} else if t.isRepl {
		if t.pos < len(t.replay) {
			v = t.replay[t.pos]
		}
	} else {
		v = splitmix(&t.state)
	}
	if n != 0 {
		v %= n
	}
	t.pos++
	if t.capOn {
		t.capture = append(t.capture, v)
	}
	if t.keepRec {
		t.rec = append(t.rec, Rec{label, n, v})
	}
	return v
}

// Bool is true with probability num/den; the simple value 0 maps to false.
func (t *Tape) Bool(label string, num, den int) bool {
	return t.Draw(label, den) >= den-num
}

// Range returns a value in [lo,hi].
func (t *Tape) Range(label string, lo, hi int) int {
	return lo + t.Draw(label, hi-lo+1)
}

// Pick returns one of the given values; the first is the simplest.
func Pick[T any](t *Tape, label string, xs ...T) T {
	return xs[t.Draw(label, len(xs))]
}

// Weighted returns an index with probability proportional to w[i].
func (t *Tape) Weighted(label string, w ...int) int {
	sum := 0
	for _, x := range w {
		sum += x
	}
	v := t.Draw(label, sum)
	for i, x := range w {
		if v < x {
			return i
		}
		v -= x
	}
	return len(w) - 1
}

// Sub returns an independent PRNG stream keyed by one tape draw.  It is used
// for bulk data so that the tape stays short; the draw value 0 yields the
// all-zero stream (simplest data).
func (t *Tape) Sub(label string) *Stream {
	v := t.Draw64(label, 1<<32)
	return &Stream{s: v, zero: v == 0}
}

// Stream is a cheap PRNG for bulk data.
type Stream struct {
	s    uint64
	zero bool
}

func (s *Stream) Next() uint64 {
	if s.zero {
		return 0
	}
	return splitmix(&s.s)
}
func (s *Stream) Intn(n int) int {
	if n <= 0 {
		return 0
	}
	return int(s.Next() % uint64(n))
}

// Read fills p (never fails); implements io.Reader for crypto/rand.Reader.
func (s *Stream) Read(p []byte) (int, error) {
	for i := 0; i < len(p); {
		v := s.Next()
		if s.zero {
			v = 0x4141414141414141
		}
		for k := 0; k < 8 && i < len(p); k++ {
			p[i] = byte(v >> (8 * k))
			i++
		}
	}
	return len(p), nil
}

// Pos is the number of draws so far.
func (t *Tape) Pos() int { return t.pos }

// Records returns the recorded draws.
func (t *Tape) Records() []Rec { return t.rec }

// Values returns the drawn values.
func (t *Tape) Values() []uint64 {
	out := make([]uint64, len(t.rec))
	for i, r := range t.rec {
		out[i] = r.V
	}
	return out
}
