package tape

import "time"

// Shrink minimises vals while interesting(vals) stays true.  It applies generic
// passes (truncate, delete chunks, zero, halve, decrement) until a fixed point,
// the candidate budget or the deadline is reached.  interesting must be a pure
// function of vals.
func Shrink(vals []uint64, interesting func([]uint64) bool, maxCand int, deadline time.Time) ([]uint64, int) {
	cur := append([]uint64(nil), vals...)
	cand := 0
	try := func(c []uint64) bool {
		if cand >= maxCand || time.Now().After(deadline) {
			return false
		}
		cand++
		if interesting(c) {
			cur = append(cur[:0:0], c...)
			return true
		}
		return false
	}
	stop := func() bool { return cand >= maxCand || time.Now().After(deadline) }

	// drop trailing zeros (they are implied)
	trim := func() {
		for len(cur) > 0 && cur[len(cur)-1] == 0 {
			cur = cur[:len(cur)-1]
		}
	}

	for round := 0; round < 8 && !stop(); round++ {
		before := len(cur)
		sum := uint64(0)
		for _, v := range cur {
			sum += v
		}

		// truncate tail (binary search on length)
		lo, hi := 0, len(cur)
		for lo < hi && !stop() {
			mid := (lo + hi) / 2
			if try(cur[:mid]) {
				hi = len(cur)
				if hi > mid {
					hi = mid
				}
			} else {
				lo = mid + 1
			}
		}
		trim()

		// delete chunks
		for size := len(cur) / 2; size >= 1 && !stop(); size /= 2 {
			for i := 0; i+size <= len(cur) && !stop(); {
				c := append(append([]uint64(nil), cur[:i]...), cur[i+size:]...)
				if !try(c) {
					i += size
				}
			}
		}
		trim()

		// zero chunks, then single values
		for size := len(cur) / 2; size >= 2 && !stop(); size /= 2 {
			for i := 0; i+size <= len(cur) && !stop(); i += size {
				allZero := true
				for _, v := range cur[i : i+size] {
					if v != 0 {
						allZero = false
						break
					}
				}
				if allZero {
					continue
				}
				c := append([]uint64(nil), cur...)
				for k := i; k < i+size; k++ {
					c[k] = 0
				}
				try(c)
			}
		}
		for i := 0; i < len(cur) && !stop(); i++ {
			if cur[i] == 0 {
				continue
			}
			c := append([]uint64(nil), cur...)
			c[i] = 0
			if try(c) {
				continue
			}
			// binary descent towards the smallest value that still fails
			lo, hi := uint64(0), cur[i]
			for lo+1 < hi && !stop() {
				mid := lo + (hi-lo)/2
				c := append([]uint64(nil), cur...)
				c[i] = mid
				if try(c) {
					hi = mid
				} else {
					lo = mid
				}
			}
		}
		trim()

		after := uint64(0)
		for _, v := range cur {
			after += v
		}
		if len(cur) == before && after == sum {
			break
		}
	}
	return cur, cand
}
